#!/bin/bash
# Re-runs every stored seeded change against the current checks (applies to /repo, undoes afterwards).
cd /verif
for d in seeded/*/; do
  id=$(basename $d); p=$(python3 -c "import json; print(json.load(open('$d/meta.json'))['breaks_property'])")
  git -C /repo apply /verif/$d/patch.diff || { echo "$id: patch does not apply to the current tree (kept with its last result)"; python3 -c "
import json;p='/verif/seeded/$id/meta.json';m=json.load(open(p));m['applies_to_current_tree']=False;m['note']='the lines it edits were changed by a later fix: commit; last result kept';json.dump(m,open(p,'w'),indent=1)"; continue; }
  VERIF_OUT=/verif/$d/out ./check $p > $d/check_$p.txt 2>&1; rc=$?
  git -C /repo checkout -- .
  rm -rf $d/out/evidence
  conf=$(grep "^VIOLATION" $d/check_$p.txt | grep -vc "no-failing-input-found")
  echo "$id $p exit=$rc violations=$(grep -c '^VIOLATION' $d/check_$p.txt) with-replayed-input=$conf"
  python3 - $id $rc <<'PY'
import json,sys
p='/verif/seeded/%s/meta.json'%sys.argv[1]
m=json.load(open(p)); m['check_exit']=int(sys.argv[2]); m['detected']=(int(sys.argv[2])==1); json.dump(m,open(p,'w'),indent=1)
PY
done
git -C /repo status --short | head -2
