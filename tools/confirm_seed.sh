#!/bin/bash
# confirm_seed.sh <seed-id> <property> <worktree> [race]
# Confirms a seeded change independently (suite passes with it, demo fails with it and passes without),
# stores it under /verif/seeded/<id>/ and runs the property's check against it (applied to /repo, undone afterwards).
set -u
ID="$1"; PROP="$2"; WT="$3"; RACE="${4:-}"
export GOFLAGS=-mod=mod GOPROXY=off GOSUMDB=off GOTOOLCHAIN=local
D=/verif/seeded/$ID; mkdir -p "$D"
git -C "$WT" diff > "$D/patch.diff"
demo=$(cd "$WT" && git status --short | grep 'zz_seeded_demo_test.go' | awk '{print $2}')
cp "$WT/$demo" "$D/$(basename "$demo")"; cp "$WT/SEEDED.md" "$D/SEEDED.md" 2>/dev/null
pkgdir=$(dirname "$demo")
S=$(mktemp -d /tmp/confirm-XXXXXX); rm -rf "$S"; git -C /repo worktree add -q --detach "$S" HEAD
rflag=""; [ -n "$RACE" ] && rflag="-race"
(cd "$S" && git apply "$D/patch.diff") || { echo "PATCH DOES NOT APPLY"; git -C /repo worktree remove --force "$S"; exit 1; }
suite=$(cd "$S" && go test -vet=off -count=1 ./varlink/... ./cmd/varlink-go-interface-generator/... 2>&1 | grep -c "^ok")
cp "$D/$(basename "$demo")" "$S/$demo"
(cd "$S" && go test $rflag -vet=off -count=1 -run 'TestSeededDemo$' ./$pkgdir > "$D/demo_with_change.txt" 2>&1); with=$?
(cd "$S" && git apply -R "$D/patch.diff")
(cd "$S" && go test $rflag -vet=off -count=1 -run 'TestSeededDemo$' ./$pkgdir > "$D/demo_without_change.txt" 2>&1); without=$?
git -C /repo worktree remove --force "$S"
echo "suite_ok_pkgs=$suite demo_with_change_exit=$with demo_without_change_exit=$without"
# run my check
git -C /repo apply "$D/patch.diff"
(cd /verif && VERIF_OUT="$D/out" ./check "$PROP" > "$D/check_$PROP.txt" 2>&1); rc=$?; rm -rf "$D/out/evidence"
git -C /repo checkout -- .
echo "check $PROP exit=$rc: $(grep -c '^VIOLATION' "$D/check_$PROP.txt") VIOLATION lines"
grep "^VIOLATION\|ENGINE-ERROR\|UNDECIDED \|FAILED" "$D/check_$PROP.txt" | head -8
python3 - "$ID" "$PROP" "$suite" "$with" "$without" "$rc" <<'PY'
import json,sys
id,prop,suite,w,wo,rc=sys.argv[1:7]
json.dump({"id":id,"breaks_property":prop,"source":"independent sub-agent given only the property text and a scratch worktree",
 "confirmed":{"existing_suite_ok_packages_with_change":int(suite),"demo_exit_with_change":int(w),"demo_exit_without_change":int(wo)},
 "ran":["git apply patch.diff in a scratch worktree of /repo HEAD","go test -vet=off -count=1 ./varlink/... ./cmd/varlink-go-interface-generator/...","go test -run TestSeededDemo (with and without the change)","git -C /repo apply patch.diff; ./check %s; git -C /repo checkout -- ."%prop],
 "check_exit":int(rc),"needs_to_manifest":"see SEEDED.md"}, open("/verif/seeded/%s/meta.json"%id,"w"), indent=1)
PY
