#!/bin/bash
# Re-runs every stored seeded change against the current checks, in parallel, each on its own scratch copy of
# /repo's working tree (./check --repo), so /repo itself is never touched. usage: tools/rerun_seeds_par.sh [par]
cd /verif
export GOFLAGS=-mod=mod GOPROXY=off GOSUMDB=off GOTOOLCHAIN=local
PAR="${1:-4}"; BASE="${TMPDIR:-/var/tmp}"; WORK=$(mktemp -d "$BASE/seeds-XXXXXX"); trap 'rm -rf "$WORK"' EXIT
rsync -a --exclude .git /repo/ "$WORK/snap"/
export WORK
one() {
  id=$1; d=/verif/seeded/$id
  p=$(python3 -c "import json; print(json.load(open('$d/meta.json'))['breaks_property'])")
  S=$(mktemp -d "$WORK/s-XXXXXX"); rsync -a "$WORK/snap"/ "$S"/
  if ! (cd "$S" && patch -p1 -s --no-backup-if-mismatch < "$d/patch.diff" >/dev/null 2>&1); then
    echo "$id $p: patch does not apply to the current tree (kept with its last result)"; rm -rf "$S"; return
  fi
  VERIF_OUT="$S.out" /verif/check "$p" --repo "$S" > "$S.log" 2>&1; rc=$?
  sed -e "s|$S.out|/verif/seeded/$id/out|g; s|$S|/repo|g" "$S.log" > "$d/check_$p.txt"
  rm -rf "$d/out"; mkdir -p "$d/out"; [ -d "$S.out/replays" ] && cp -r "$S.out/replays" "$d/out/" && grep -rl "$S" "$d/out" 2>/dev/null | xargs -r sed -i "s|$S.out|/verif/seeded/$id/out|g; s|$S|/repo|g"
  conf=$(grep "^VIOLATION" "$d/check_$p.txt" | grep -vc "no-failing-input-found")
  echo "$id $p exit=$rc violations=$(grep -c '^VIOLATION' "$d/check_$p.txt") with-replayed-input=$conf"
  python3 - "$id" "$rc" <<'PY'
import json,sys
p='/verif/seeded/%s/meta.json'%sys.argv[1]
m=json.load(open(p)); m['check_exit']=int(sys.argv[2]); m['detected']=(int(sys.argv[2])==1); json.dump(m,open(p,'w'),indent=1)
PY
  rm -rf "$S" "$S.out" "$S.log"
}
export -f one
ls seeded | xargs -P "$PAR" -I{} bash -c 'one {}'
