#!/usr/bin/env python3
"""Regenerates /verif/MANIFEST.json from tools/claims.json (the per-property claim texts)."""
import json, os, subprocess
here = os.path.dirname(os.path.abspath(__file__))
root = os.path.dirname(here)
claims = json.load(open(os.path.join(here, "claims.json")))
props = [json.loads(l)["id"] for l in open(os.path.join(root, "properties.jsonl"))]
hooks = subprocess.run(["git", "-C", "/repo", "log", "--format=%H %s"], capture_output=True, text=True).stdout.splitlines()
hook_commits = [l.split()[0] for l in hooks if l.split(" ", 1)[1].startswith("verif:")]
man = {
 "version": 1,
 "setup_cmd": "cd /verif/engine && GOFLAGS=-mod=mod GOPROXY=off GOSUMDB=off GOTOOLCHAIN=local go build -o /verif/bin/govc .",
 "hooks": {
  "guard": "verif",
  "enable": "the engine loads /repo with build tag verif (go/packages BuildFlags -tags=verif); the tag only adds comment-only contracts_verif.go files, no code",
  "baseline_off_cmd": "cd /repo && GOFLAGS=-mod=mod GOPROXY=off go test -vet=off -count=1 ./varlink/... ./cmd/varlink-go-interface-generator/...",
  "source_commits": hook_commits,
  "add_only": True,
 },
 "engines": [{
  "name": "govc", "path": "/verif/engine",
  "serves_properties": [c["property_id"] for c in claims["checks"]],
  "kind_free_text": "contract-based deductive verifier for Go written for this task: contracts as //@ comments in /repo/**/contracts_verif.go, verification conditions generated from go/ssa (NaiveForm) of the current working tree by symbolic execution of the loop-cut CFG, one SMT-LIB query per obligation part, discharged by z3 5.1.0 / z3 4.8.12 / cvc5 1.0.3; counterexamples replayed on the real code with go test -overlay",
 }],
 "checks": [],
 "not_applicable": [],
 "notes": claims.get("notes", ""),
}
claimed = set()
for c in claims["checks"]:
    pid = c["property_id"]
    claimed.add(pid)
    man["checks"].append({
     "property_id": pid,
     "quick_cmd": "./check %s" % pid,
     "thorough_cmd": "./check %s --tier thorough" % pid,
     "evidence_file": "/verif/evidence/%s.json" % pid,
     "replay_cmd_template": "./replay {path}",
     "engine": "govc",
     "level_claimed": {"category": "proof", "text": c["text"], "design_ref": c.get("design_ref", "DESIGN.md section 11")},
     "level_note": c["note"] + " The functional clauses of the assumed library contracts (spec/stdlib.contracts) are additionally run against the real standard library on every check (BOUNDED, evidence key coverage.assumption_validation, never counted as proved); a refuted assumption is reported as an engine error (exit 2), not as a property verdict.",
     "technique": c.get("technique", "contract-based deductive verification: pre/postconditions, loop invariants and variants on the real functions; VCs from go/ssa; SMT (z3, cvc5)"),
    })
for p in props:
    if p not in claimed:
        man["not_applicable"].append({"property_id": p, "reason": claims["not_applicable"].get(p, "check not built yet (work in progress; see DESIGN.md)")})
json.dump(man, open(os.path.join(root, "MANIFEST.json"), "w"), indent=1)
print("claimed:", sorted(claimed))
