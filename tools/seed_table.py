#!/usr/bin/env python3
# Regenerates the table of independent seeded changes in DESIGN.md (between the markers) from /verif/seeded/*.
import json, os, re, glob
rows = []
for d in sorted(glob.glob('/verif/seeded/*/')):
    mid = os.path.basename(d.rstrip('/'))
    try:
        m = json.load(open(d + 'meta.json'))
    except Exception:
        continue
    P = m['breaks_property']
    files = sorted(set(re.findall(r'^\+\+\+ b/(\S+)', open(d + 'patch.diff').read(), re.M)))
    chk = ''
    for f in glob.glob(d + 'check_*.txt'):
        chk = open(f, errors='replace').read()
    viol = re.findall(r'^VIOLATION property=\S+ replay=(\S+?)(\.txt)?( no-failing-input-found)?$', chk, re.M)
    names = [os.path.basename(v[0]) for v in viol]
    replayed = any(v[2] == '' for v in viol)
    rows.append('| %s | %s | %s | %s | %s | %s |' % (mid, P, ', '.join(files), 'yes' if m.get('check_exit') == 1 else 'NO',
               'yes' if replayed else 'no', ', '.join('`%s`' % n for n in names[:2])))
hdr = '| seed | property | file | detected | failing input reproduced | failing obligations (first 2) |\n|---|---|---|---|---|---|\n'
table = hdr + '\n'.join(rows) + '\n'
p = '/verif/DESIGN.md'
s = open(p).read()
a = s.index('| seed | property | file |')
b = s.index('\nFirst-run misses')
s = s[:a] + table + s[b:]
open(p, 'w').write(s)
print(len(rows), 'rows;', sum('| yes | yes |' in r for r in rows), 'with a reproduced input')
