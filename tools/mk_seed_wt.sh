#!/bin/bash
# mk_seed_wt.sh <seed-id> <property>: scratch worktree of /repo HEAD for an independent sub-agent
# (contract files removed so the agent sees nothing of the verification), plus the property text.
set -eu
ID="$1"; PROP="$2"; WT=/tmp/seed_$ID
git -C /repo worktree add -q --detach "$WT" HEAD
find "$WT" -name contracts_verif.go -delete
git -C "$WT" update-index --assume-unchanged $(git -C "$WT" ls-files -d) 2>/dev/null || true
python3 - "$PROP" > "$WT/PROPERTY.json" <<'PY'
import json,sys
for l in open('/verif/properties.jsonl'):
    p=json.loads(l)
    if p['id']==sys.argv[1]: print(json.dumps(p,indent=1))
PY
echo "$WT"
