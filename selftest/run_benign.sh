#!/bin/bash
# Semantics-preserving edits: no check may print a VIOLATION line (exit 0, or exit 2 = undecided, are both fine).
cd "$(dirname "$0")/.."; VERIF="$(pwd)"; BASE="${TMPDIR:-/var/tmp}"
export GOFLAGS=-mod=mod GOPROXY=off GOSUMDB=off GOTOOLCHAIN=local
# one snapshot of /repo's working tree at start, so that later edits of /repo do not leak into the run
SNAP=$(mktemp -d "$BASE/benign-snap-XXXXXX"); rsync -a --exclude .git /repo/ "$SNAP"/; trap 'rm -rf "$SNAP"' EXIT
bad=0
for patch in "$VERIF"/selftest/benign/*.patch; do
  S=$(mktemp -d "$BASE/benign-XXXXXX"); rsync -a "$SNAP"/ "$S"/
  (cd "$S" && patch -p1 -s --no-backup-if-mismatch < "$patch") || { echo "BENIGN skipped: $(basename $patch)"; rm -rf "$S"; continue; }
  (cd "$S" && go test -vet=off -count=1 ./varlink/... ./cmd/varlink-go-interface-generator/... >/dev/null 2>&1) || echo "BENIGN WARNING: suite fails with $(basename $patch)"
  res=""
  for P in $(python3 -c "import json; print(' '.join(c['property_id'] for c in json.load(open('$VERIF/MANIFEST.json'))['checks']))"); do
    out=$(VERIF_OUT="$S.out" "$VERIF/check" "$P" --repo "$S" 2>&1); rc=$?
    if echo "$out" | grep -q "^VIOLATION"; then res="$res $P:ALARM"; bad=$((bad+1)); echo "$out" | grep "^VIOLATION\|UNDECIDED " | head -3; elif [ $rc -eq 2 ]; then res="$res $P:undecided"; fi
  done
  echo "BENIGN $(basename $patch):${res:- all checks silent (exit 0)}"
  rm -rf "$S" "$S.out"
done
echo "BENIGN summary: false alarms=$bad"; [ $bad -eq 0 ]
