#!/bin/bash
# Semantics-preserving edits: no check may print a VIOLATION line (exit 0, or exit 2 = undecided, are both fine).
# usage: selftest/run_benign.sh [glob]    (default: all of selftest/benign/*.patch)
cd "$(dirname "$0")/.."; VERIF="$(pwd)"; BASE="${TMPDIR:-/var/tmp}"
export GOFLAGS=-mod=mod GOPROXY=off GOSUMDB=off GOTOOLCHAIN=local
PAR="${VERIF_SELFTEST_PAR:-4}"
GLOB="${1:-*}"
# one snapshot of /repo's working tree at start, so that later edits of /repo do not leak into the run
WORK=$(mktemp -d "$BASE/benign-XXXXXX"); trap 'rm -rf "$WORK"' EXIT
SNAP="$WORK/snap"; mkdir -p "$SNAP"; rsync -a --exclude .git /repo/ "$SNAP"/
PROPS=$(python3 -c "import json; print(' '.join(c['property_id'] for c in json.load(open('$VERIF/MANIFEST.json'))['checks']))")
[ -n "${VERIF_BENIGN_PROPS:-}" ] && PROPS="$VERIF_BENIGN_PROPS"   # optional: only these properties
export VERIF SNAP WORK PROPS
one() {
  patch="$1"
  S=$(mktemp -d "$WORK/b-XXXXXX"); rsync -a "$SNAP"/ "$S"/
  (cd "$S" && patch -p1 -s --no-backup-if-mismatch < "$patch") || { echo "BENIGN skipped: $(basename $patch)"; rm -rf "$S"; return; }
  (cd "$S" && go test -vet=off -count=1 ./varlink/... ./cmd/varlink-go-interface-generator/... >/dev/null 2>&1) || echo "BENIGN WARNING: suite fails with $(basename $patch)"
  res=""; alarm=0
  for P in $PROPS; do
    out=$(VERIF_OUT="$S.out" "$VERIF/check" "$P" --repo "$S" 2>&1); rc=$?
    if echo "$out" | grep -q "^VIOLATION"; then
      res="$res $P:ALARM"; alarm=1
      echo "$out" | grep "^VIOLATION\|UNDECIDED " | head -3 | sed "s/^/    [$(basename $patch) $P] /"
    elif [ $rc -eq 2 ]; then res="$res $P:undecided"; fi
  done
  if [ $alarm -eq 1 ]; then echo "BENIGN ALARM $(basename $patch):$res"; else echo "BENIGN $(basename $patch):${res:- all checks silent (exit 0)}"; fi
  rm -rf "$S" "$S.out"
}
export -f one
ls "$VERIF"/selftest/benign/$GLOB.patch | xargs -P "$PAR" -I{} bash -c 'one "{}"' > "$WORK/log" 2>&1
cat "$WORK/log"
bad=$(grep -c "^BENIGN ALARM" "$WORK/log")
echo "BENIGN summary: patches=$(grep -c '^BENIGN ' "$WORK/log") false alarms=$bad"; [ "$bad" -eq 0 ]
