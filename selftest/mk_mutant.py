#!/usr/bin/env python3
"""mk_mutant.py NAME 'C05 C06' 'description' FILE <<< 'OLD\n===\nNEW'
Creates selftest/mutants/NAME.patch (+ .json) from a textual replacement against /repo's current tree."""
import sys, os, subprocess, json, tempfile, shutil
name, props, desc, rel = sys.argv[1:5]
old, new = sys.stdin.read().split("\n===\n")
new = new.rstrip("\n")
old = old.rstrip("\n")
src = open(os.path.join("/repo", rel)).read()
if src.count(old) != 1:
    sys.exit("OLD occurs %d times in %s" % (src.count(old), rel))
d = tempfile.mkdtemp()
os.makedirs(os.path.join(d, "a", os.path.dirname(rel))); os.makedirs(os.path.join(d, "b", os.path.dirname(rel)))
open(os.path.join(d, "a", rel), "w").write(src)
open(os.path.join(d, "b", rel), "w").write(src.replace(old, new))
out = subprocess.run(["diff", "-u", os.path.join("a", rel), os.path.join("b", rel)], cwd=d, capture_output=True, text=True).stdout
shutil.rmtree(d)
here = os.path.dirname(os.path.abspath(__file__))
open(os.path.join(here, "mutants", name + ".patch"), "w").write(out)
json.dump({"properties": props.split(), "description": desc, "file": rel}, open(os.path.join(here, "mutants", name + ".json"), "w"), indent=1)
print("wrote", name)
