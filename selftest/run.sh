#!/bin/bash
# Must-fail corpus: every patch in selftest/mutants/*.patch is applied to a scratch copy of /repo's
# current tree; the check of each property named in the patch's .json must report a VIOLATION.
# usage: selftest/run.sh [PROP]   (PROP: only mutants that name this property)
# A patch that no longer applies is skipped and reported, never an alarm. A mutant that is not
# detected makes this script exit 1 (a hole in a contract, not a property verdict).
set -u
cd "$(dirname "$0")/.."
VERIF="$(pwd)"
REPO="${VERIF_REPO:-/repo}"
ONLY="${1:-}"
BASE="${TMPDIR:-/var/tmp}"
PAR="${VERIF_SELFTEST_PAR:-4}"
export GOFLAGS=-mod=mod GOPROXY=off GOSUMDB=off GOTOOLCHAIN=local VERIF_NO_REPLAY=1
export VERIF REPO BASE
WORK=$(mktemp -d "$BASE/selftest-XXXXXX")
trap 'rm -rf "$WORK"' EXIT
# one snapshot of the tree under test at start, so that later edits of it do not leak into the run
mkdir -p "$WORK/base"; rsync -a --exclude .git "$REPO"/ "$WORK/base"/
SNAP="$WORK/base"; export SNAP
one() {
  meta="$1"; P="$2"
  patch="${meta%.json}.patch"
  name=$(basename "$patch")
  S=$(mktemp -d "$WORK/m-XXXXXX")
  rsync -a "$SNAP"/ "$S"/
  if ! (cd "$S" && patch -p1 -s --no-backup-if-mismatch < "$patch" >/dev/null 2>&1); then
    echo "SELFTEST skipped (patch does not apply): $name"; rm -rf "$S"; return 0
  fi
  out=$("$VERIF/bin/govc" -prop "$P" -repo "$S" -verif "$VERIF" -out "$S.out" -timeout 5 -j 4 2>&1); rc=$?
  # the labelled bounded stand-ins are part of ./check for these properties
  if [ $rc -ne 1 ]; then
    case "$P" in
      C07) bout=$(VERIF_OUT="$S.out" "$VERIF/bounded/c07/run.sh" quick "$S" 2>&1) || rc=1; out="$out"$'\n'"$bout";;
      C05|C06) bout=$(VERIF_OUT="$S.out" "$VERIF/bounded/idl/run.sh" "$P" quick "$S" 2>&1) || rc=1; out="$out"$'\n'"$bout";;
    esac
  fi
  # a change that is caught only through a reproduced failing run needs the replay step: retry with it
  if ! { [ $rc -eq 1 ] && echo "$out" | grep -q "^VIOLATION property=$P"; }; then
    out2=$(VERIF_NO_REPLAY= VERIF_OUT="$S.out" "$VERIF/check" "$P" --repo "$S" 2>&1); rc2=$?
    if [ $rc2 -eq 1 ] && echo "$out2" | grep -q "^VIOLATION property=$P"; then out="$out2"; rc=1; fi
  fi
  if [ $rc -eq 1 ] && echo "$out" | grep -q "^VIOLATION property=$P"; then
    echo "SELFTEST ok: $name detected by $P ($(echo "$out" | grep -c '^VIOLATION') obligations)"
  else
    echo "SELFTEST MISSED: $name not detected by $P (rc=$rc)"; echo "$out" | tail -4 | sed 's/^/    /'
  fi
  rm -rf "$S" "$S.out"
}
export -f one
jobs=()
for meta in "$VERIF"/selftest/mutants/*.json; do
  [ -e "$meta" ] || continue
  props=$(python3 -c "import json,sys; print(' '.join(json.load(open(sys.argv[1]))['properties']))" "$meta")
  for P in $props; do
    if [ -n "$ONLY" ] && [ "$ONLY" != "$P" ]; then continue; fi
    jobs+=("$meta $P")
  done
done
# independent seeded changes (sub-agents) are part of the corpus
for meta in "$VERIF"/seeded/*/meta.json; do
  [ -e "$meta" ] || continue
  P=$(python3 -c "import json,sys; print(json.load(open(sys.argv[1]))['breaks_property'])" "$meta")
  if [ -n "$ONLY" ] && [ "$ONLY" != "$P" ]; then continue; fi
  d=$(dirname "$meta"); cp "$d/patch.diff" "$WORK/seed_$(basename "$d").patch"; echo "{\"properties\":[\"$P\"]}" > "$WORK/seed_$(basename "$d").json"
  jobs+=("$WORK/seed_$(basename "$d").json $P")
done
printf '%s\n' "${jobs[@]}" | xargs -P "$PAR" -L 1 bash -c 'one "$0" "$1"' > "$WORK/log" 2>&1
cat "$WORK/log"
ran=$(grep -c "^SELFTEST \(ok\|MISSED\)" "$WORK/log")
missed=$(grep -c "^SELFTEST MISSED" "$WORK/log")
skipped=$(grep -c "^SELFTEST skipped" "$WORK/log")
echo "SELFTEST summary: ran=$ran missed=$missed skipped=$skipped"
[ "$missed" -eq 0 ]
