#!/bin/bash
# Must-fail corpus: every patch in selftest/mutants/*.patch is applied to a scratch copy of /repo's
# current tree; the check of each property named in the patch's meta line must report a VIOLATION.
# usage: selftest/run.sh [PROP]   (PROP: only mutants that name this property)
set -u
cd "$(dirname "$0")/.."
VERIF="$(pwd)"
REPO="${VERIF_REPO:-/repo}"
ONLY="${1:-}"
BASE="${TMPDIR:-/var/tmp}"
fail=0; ran=0; skipped=0
export GOFLAGS=-mod=mod GOPROXY=off GOSUMDB=off GOTOOLCHAIN=local VERIF_NO_REPLAY=${VERIF_SELFTEST_REPLAY:+}${VERIF_SELFTEST_REPLAY:-1}
for meta in "$VERIF"/selftest/mutants/*.json; do
  [ -e "$meta" ] || continue
  patch="${meta%.json}.patch"
  props=$(python3 -c "import json,sys; print(' '.join(json.load(open(sys.argv[1]))['properties']))" "$meta")
  for P in $props; do
    if [ -n "$ONLY" ] && [ "$ONLY" != "$P" ]; then continue; fi
    S=$(mktemp -d "$BASE/selftest-XXXXXX")
    rsync -a --exclude .git "$REPO"/ "$S"/
    if ! (cd "$S" && patch -p1 -s --no-backup-if-mismatch < "$patch" >/dev/null 2>&1); then
      echo "SELFTEST skipped (patch does not apply): $(basename "$patch")"; skipped=$((skipped+1)); rm -rf "$S" "$S.out"; continue
    fi
    out=$("$VERIF/bin/govc" -prop "$P" -repo "$S" -verif "$VERIF" -out "$S.out" -timeout 10 2>&1); rc=$?
    ran=$((ran+1))
    if [ $rc -eq 1 ] && echo "$out" | grep -q "^VIOLATION property=$P"; then
      echo "SELFTEST ok: $(basename "$patch") detected by $P ($(echo "$out" | grep -c '^VIOLATION') obligations)"
    else
      echo "SELFTEST MISSED: $(basename "$patch") not detected by $P (rc=$rc)"; echo "$out" | tail -5; fail=$((fail+1))
    fi
    rm -rf "$S" "$S.out"
  done
done

echo "SELFTEST summary: ran=$ran missed=$fail skipped=$skipped"
[ $fail -eq 0 ]
