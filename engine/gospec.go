package main

// Compile spec expressions to Go source for replaying counterexamples on the real code.

import (
	"fmt"
	"strings"
)

type goCompiler struct {
	cs     *ContractSet
	names  map[string]string // spec name -> Go expression
	olds   []string          // Go expressions to evaluate before the call
	oldIdx map[string]int
	inOld  bool
	ghost  func(name string, old bool) string // ghost name -> Go expr (harness variable)
	consts map[string]string
	qdepth int
}

func newGoCompiler(cs *ContractSet, names map[string]string) *goCompiler {
	return &goCompiler{cs: cs, names: names, oldIdx: map[string]int{}}
}

func (c *goCompiler) compile(e Expr) (string, error) {
	var err error
	defer func() {}()
	s := func() (s string) {
		defer func() {
			if r := recover(); r != nil {
				if ge, ok := r.(goErr); ok {
					err = fmt.Errorf("%s", string(ge))
					return
				}
				panic(r)
			}
		}()
		return c.expr(e)
	}()
	return s, err
}

type goErr string

func (c *goCompiler) fail(f string, a ...interface{}) { panic(goErr(fmt.Sprintf(f, a...))) }

func (c *goCompiler) expr(e Expr) string {
	switch x := e.(type) {
	case *EInt:
		return x.V
	case *EBool:
		return fmt.Sprint(x.V)
	case *EStr:
		return fmt.Sprintf("%q", x.V)
	case *ENil:
		return "nil"
	case *EIdent:
		if g, ok := c.names[x.Name]; ok {
			return g
		}
		if _, ok := c.cs.Ghosts[x.Name]; ok {
			if c.ghost == nil {
				c.fail("ghost %s is not observable in a replay", x.Name)
			}
			return c.ghost(x.Name, c.inOld)
		}
		if p, ok := c.cs.Preds[x.Name]; ok && len(p.Params) == 0 {
			return c.expr(p.Body)
		}
		return x.Name // package-level identifier
	case *EUnary:
		return "(" + x.Op + c.expr(x.X) + ")"
	case *EStar:
		return "(*" + c.expr(x.X) + ")"
	case *EBinary:
		switch x.Op {
		case "==>":
			return "(!(" + c.expr(x.X) + ") || (" + c.expr(x.Y) + "))"
		case "<==>":
			return "((" + c.expr(x.X) + ") == (" + c.expr(x.Y) + "))"
		}
		a, b := c.expr(x.X), c.expr(x.Y)
		// byte vs int comparisons: convert both to int when one side indexes a string
		if isCmp(x.Op) || x.Op == "+" || x.Op == "-" {
			if looksByte(x.X) != looksByte(x.Y) {
				if looksByte(x.X) {
					a = "int(" + a + ")"
				} else {
					b = "int(" + b + ")"
				}
			}
		}
		return "(" + a + " " + x.Op + " " + b + ")"
	case *EIte:
		return "func() interface{} { if " + c.expr(x.C) + " { return " + c.expr(x.A) + " }; return " + c.expr(x.B) + " }()"
	case *EField:
		return c.expr(x.X) + "." + x.Name
	case *EIndex:
		return c.expr(x.X) + "[" + c.expr(x.I) + "]"
	case *ESlice:
		lo, hi := "", ""
		if x.Lo != nil {
			lo = c.expr(x.Lo)
		}
		if x.Hi != nil {
			hi = c.expr(x.Hi)
		}
		return c.expr(x.X) + "[" + lo + ":" + hi + "]"
	case *EQuant:
		return c.quant(x)
	case *ECall:
		switch x.Fn {
		case "old":
			if c.inOld {
				return c.expr(x.Args[0])
			}
			c.inOld = true
			g := c.expr(x.Args[0])
			c.inOld = false
			if c.qdepth > 0 && mentionsBound(x.Args[0]) {
				c.fail("old() over a bound variable is not replayable")
			}
			if i, ok := c.oldIdx[g]; ok {
				return fmt.Sprintf("old_%d", i)
			}
			i := len(c.olds)
			c.olds = append(c.olds, g)
			c.oldIdx[g] = i
			return fmt.Sprintf("old_%d", i)
		case "len", "cap":
			return x.Fn + "(" + c.expr(x.Args[0]) + ")"
		case "fresh", "allocated":
			return "true"
		case "has":
			return "func() bool { _, ok := " + c.expr(x.Args[0]) + "[" + c.expr(x.Args[1]) + "]; return ok }()"
		}
		if p, ok := c.cs.Preds[x.Fn]; ok {
			m := map[string]Expr{}
			for i, pn := range p.Params {
				m[pn] = x.Args[i]
			}
			return c.expr(substExpr(p.Body, m))
		}
		c.fail("spec function %s is not replayable", x.Fn)
	}
	c.fail("expression %s is not replayable", e)
	return ""
}

func isCmp(op string) bool {
	switch op {
	case "==", "!=", "<", "<=", ">", ">=":
		return true
	}
	return false
}

// looksByte: expression is an index into a string/byte slice (so its Go type is byte)
func looksByte(e Expr) bool {
	_, ok := e.(*EIndex)
	return ok
}

var boundNames = map[string]bool{}

func mentionsBound(e Expr) bool {
	found := false
	var walk func(e Expr)
	walk = func(e Expr) {
		switch x := e.(type) {
		case *EIdent:
			if boundNames[x.Name] {
				found = true
			}
		case *EUnary:
			walk(x.X)
		case *EStar:
			walk(x.X)
		case *EBinary:
			walk(x.X)
			walk(x.Y)
		case *ECall:
			for _, a := range x.Args {
				walk(a)
			}
		case *EField:
			walk(x.X)
		case *EIndex:
			walk(x.X)
			walk(x.I)
		case *ESlice:
			walk(x.X)
			if x.Lo != nil {
				walk(x.Lo)
			}
			if x.Hi != nil {
				walk(x.Hi)
			}
		}
	}
	walk(e)
	return found
}

// quant compiles bounded quantifiers: bounds are taken from conjuncts lo <= i / i < hi of the antecedent.
func (c *goCompiler) quant(q *EQuant) string {
	body := q.Body
	var guard Expr
	if b, ok := body.(*EBinary); ok && b.Op == "==>" && q.Forall {
		guard, body = b.X, b.Y
	}
	var sb strings.Builder
	sb.WriteString("func() bool {\n")
	saved := map[string]string{}
	for _, v := range q.Vars {
		saved[v.Name] = c.names[v.Name]
		c.names[v.Name] = "q_" + v.Name
		boundNames[v.Name] = true
	}
	c.qdepth++
	for _, v := range q.Vars {
		lo, hi := "-2", "70"
		if guard != nil {
			for _, cj := range conjuncts(guard) {
				if b, ok := cj.(*EBinary); ok {
					if id, ok := b.Y.(*EIdent); ok && id.Name == v.Name && !mentions(b.X, q.Vars) {
						switch b.Op {
						case "<=":
							lo = c.expr(b.X)
						case "<":
							lo = "(" + c.expr(b.X) + ")+1"
						}
					}
					if id, ok := b.X.(*EIdent); ok && id.Name == v.Name && !mentions(b.Y, q.Vars) {
						switch b.Op {
						case "<":
							hi = c.expr(b.Y)
						case "<=":
							hi = "(" + c.expr(b.Y) + ")+1"
						}
					}
				}
			}
		}
		fmt.Fprintf(&sb, "for q_%s := %s; q_%s < %s; q_%s++ {\n", v.Name, lo, v.Name, hi, v.Name)
	}
	g := "true"
	if guard != nil {
		g = c.expr(guard)
	}
	b := c.expr(body)
	if q.Forall {
		fmt.Fprintf(&sb, "if (%s) && !(%s) { return false }\n", g, b)
	} else {
		fmt.Fprintf(&sb, "if (%s) && (%s) { return true }\n", g, b)
	}
	for range q.Vars {
		sb.WriteString("}\n")
	}
	if q.Forall {
		sb.WriteString("return true }()")
	} else {
		sb.WriteString("return false }()")
	}
	c.qdepth--
	for _, v := range q.Vars {
		if saved[v.Name] == "" {
			delete(c.names, v.Name)
		} else {
			c.names[v.Name] = saved[v.Name]
		}
		delete(boundNames, v.Name)
	}
	return sb.String()
}

func conjuncts(e Expr) []Expr {
	if b, ok := e.(*EBinary); ok && b.Op == "&&" {
		return append(conjuncts(b.X), conjuncts(b.Y)...)
	}
	return []Expr{e}
}

func mentions(e Expr, vars []QVar) bool {
	for _, v := range vars {
		boundNames2 := map[string]bool{v.Name: true}
		found := false
		var walk func(e Expr)
		walk = func(e Expr) {
			switch x := e.(type) {
			case *EIdent:
				if boundNames2[x.Name] {
					found = true
				}
			case *EUnary:
				walk(x.X)
			case *EBinary:
				walk(x.X)
				walk(x.Y)
			case *ECall:
				for _, a := range x.Args {
					walk(a)
				}
			case *EField:
				walk(x.X)
			case *EIndex:
				walk(x.X)
				walk(x.I)
			}
		}
		walk(e)
		if found {
			return true
		}
	}
	return false
}
