package main

import (
	"fmt"
	"regexp/syntax"

	"go/constant"
	"go/types"
	"golang.org/x/tools/go/ssa"
	"strings"
)

// sval: value of a spec expression.
type sval struct {
	term string
	typ  types.Type // may be nil when only the sort is known
	sort string
	addr *addr // address-valued (for *x, modifies)
}

var (
	tInt    = types.Typ[types.Int]
	tBool   = types.Typ[types.Bool]
	tString = types.Typ[types.String]
	tRef    = types.Typ[types.UnsafePointer]
	tIface  = types.NewInterfaceType(nil, nil)
)

type specCtx struct {
	fx      *fnExec
	cur     *state
	old     *state
	entry   *state // loop-entry state for entry(e)
	names   map[string]sval
	locals  func(name string) (sval, bool) // current values of locals (loop invariants, asserts)
	pkg     *types.Package                 // for constants / type names
	blk     int                            // block for guarded side assumptions
	ssaArgs map[string]ssa.Value
}

func (c *specCtx) with(names map[string]sval) *specCtx {
	n := *c
	n.names = map[string]sval{}
	for k, v := range c.names {
		n.names[k] = v
	}
	for k, v := range names {
		n.names[k] = v
	}
	return &n
}

func specErr(f string, a ...interface{}) engineErr {
	return engineErr("spec: " + fmt.Sprintf(f, a...))
}

func (c *specCtx) typedSort(t types.Type) string { return c.fx.d.SortOf(t) }

func sortToType(s string) types.Type {
	switch s {
	case "int":
		return tInt
	case "bool":
		return tBool
	case "string":
		return tString
	case "ref":
		return tRef
	case "iface":
		return tIface
	case "byte":
		return types.Typ[types.Uint8]
	case "uint64":
		return types.Typ[types.Uint64]
	case "bytes":
		return types.NewSlice(types.Typ[types.Uint8])
	case "strs":
		return types.NewSlice(types.Typ[types.String])
	}
	return nil
}

func (c *specCtx) eval(e Expr) sval {
	fx := c.fx
	switch x := e.(type) {
	case *EInt:
		v := x.V
		if strings.HasPrefix(v, "0x") {
			var n uint64
			fmt.Sscanf(v, "0x%x", &n)
			v = fmt.Sprint(n)
		}
		return sval{term: v, typ: tInt, sort: "Int"}
	case *EBool:
		return sval{term: fmt.Sprint(x.V), typ: tBool, sort: "Bool"}
	case *EStr:
		return sval{term: fx.d.Lit(x.V), typ: tString, sort: "Str"}
	case *ENil:
		return sval{term: "nil", sort: "nil"}
	case *EIdent:
		return c.ident(x.Name)
	case *EUnary:
		v := c.eval(x.X)
		switch x.Op {
		case "!":
			return sval{term: not(v.term), typ: tBool, sort: "Bool"}
		case "-":
			return sval{term: "(- " + v.term + ")", typ: tInt, sort: "Int"}
		}
	case *EStar:
		v := c.eval(x.X)
		return c.deref(v)
	case *EBinary:
		return c.binary(x)
	case *EIte:
		cnd := c.eval(x.C)
		a := c.eval(x.A)
		b := c.eval(x.B)
		a, b = c.unifyNil(a, b)
		return sval{term: "(ite " + cnd.term + " " + a.term + " " + b.term + ")", typ: a.typ, sort: a.sort}
	case *EField:
		// package-qualified constant/global? (e.g. io.EOF)
		if id, ok := x.X.(*EIdent); ok {
			if _, isName := c.lookupName(id.Name); !isName {
				if v, ok := c.qualified(id.Name, x.Name); ok {
					return v
				}
			}
		}
		v := c.eval(x.X)
		return c.field(v, x.Name)
	case *EIndex:
		v := c.eval(x.X)
		i := c.eval(x.I)
		return c.index(v, i)
	case *ESlice:
		v := c.eval(x.X)
		lo := "0"
		if x.Lo != nil {
			lo = c.eval(x.Lo).term
		}
		switch v.sort {
		case "Str":
			hi := "(slen " + v.term + ")"
			if x.Hi != nil {
				hi = c.eval(x.Hi).term
			}
			return sval{term: "(ssub " + v.term + " " + lo + " " + hi + ")", typ: tString, sort: "Str"}
		case "Slice":
			hi := "(sl_len " + v.term + ")"
			if x.Hi != nil {
				hi = c.eval(x.Hi).term
			}
			t := fmt.Sprintf("(mk_slice (sl_arr %s) (+ (sl_off %s) %s) (- %s %s) (- (sl_cap %s) %s))", v.term, v.term, lo, hi, lo, v.term, lo)
			return sval{term: t, typ: v.typ, sort: "Slice"}
		}
		panic(specErr("cannot slice %s", e))
	case *EQuant:
		names := map[string]sval{}
		var binders []string
		for _, qv := range x.Vars {
			t := sortToType(strings.TrimPrefix(qv.Type, "*"))
			var s string
			if strings.HasPrefix(qv.Type, "*") {
				t = nil
				if c.pkg != nil {
					if o := c.pkg.Scope().Lookup(qv.Type[1:]); o != nil {
						t = types.NewPointer(o.Type())
						s = "Int"
					}
				}
				if t == nil {
					for _, p := range fx.g.allPkgs {
						if fx.g.repoPkgs[p.Path()] {
							if o := p.Scope().Lookup(qv.Type[1:]); o != nil {
								t = types.NewPointer(o.Type())
								s = "Int"
							}
						}
					}
				}
				if t == nil {
					panic(specErr("unknown quantifier type %s", qv.Type))
				}
			} else if t != nil {
				s = fx.d.SortOf(t)
			} else {
				// named type from package scope
				if c.pkg != nil {
					if o := c.pkg.Scope().Lookup(qv.Type); o != nil {
						t = o.Type()
						s = fx.d.SortOf(t)
					}
				}
				if t == nil {
					panic(specErr("unknown quantifier type %s", qv.Type))
				}
			}
			bn := "q!" + qv.Name
			names[qv.Name] = sval{term: bn, typ: t, sort: s}
			binders = append(binders, "("+bn+" "+s+")")
		}
		qc := c.with(names)
		body := qc.eval(x.Body)
		k := "exists"
		if x.Forall {
			k = "forall"
		}
		bt := body.term
		if len(x.Triggers) > 0 {
			var ts []string
			for _, t := range x.Triggers {
				ts = append(ts, qc.eval(t).term)
			}
			bt = "(! " + bt + " :pattern (" + strings.Join(ts, " ") + "))"
		}
		return sval{term: "(" + k + " (" + strings.Join(binders, " ") + ") " + bt + ")", typ: tBool, sort: "Bool"}
	case *ECall:
		return c.call(x)
	}
	panic(specErr("cannot evaluate %s", e))
}

func (c *specCtx) lookupName(n string) (sval, bool) {
	if v, ok := c.names[n]; ok {
		return v, true
	}
	if c.locals != nil {
		if v, ok := c.locals(n); ok {
			return v, true
		}
	}
	return sval{}, false
}

func (c *specCtx) ident(n string) sval {
	if v, ok := c.lookupName(n); ok {
		return v
	}
	fx := c.fx
	if g, ok := fx.g.cs.Ghosts[n]; ok {
		return sval{term: fx.ghostGet(c.cur, n), sort: ghostSort(g.Sort), typ: sortToType(g.Sort)}
	}
	if p, ok := fx.g.cs.Preds[n]; ok && len(p.Params) == 0 {
		return c.eval(p.Body)
	}
	if c.pkg != nil {
		if o := c.pkg.Scope().Lookup(n); o != nil {
			if v, ok := c.object(o); ok {
				return v
			}
		}
	}
	panic(specErr("unknown identifier %q in contract of %s", n, fx.fn.String()))
}

func (c *specCtx) object(o types.Object) (sval, bool) {
	fx := c.fx
	switch oo := o.(type) {
	case *types.Const:
		return fx.constVal(oo.Val(), oo.Type()), true
	case *types.Var:
		// package-level variable: load global
		g := fx.g.globalFor(oo)
		if g == nil {
			return sval{}, false
		}
		t := fx.globalTerm(oo.Pkg().Path()+"."+oo.Name(), oo.Type())
		return sval{term: t, typ: oo.Type(), sort: fx.d.SortOf(oo.Type())}, true
	}
	return sval{}, false
}

func (c *specCtx) qualified(pkgName, name string) (sval, bool) {
	fx := c.fx
	var found *types.Package
	for _, p := range fx.g.allPkgs {
		if p.Name() == pkgName {
			// prefer imports of current pkg
			found = p
			if c.pkg != nil {
				for _, imp := range c.pkg.Imports() {
					if imp == p {
						goto done
					}
				}
			}
		}
	}
done:
	if found == nil {
		return sval{}, false
	}
	o := found.Scope().Lookup(name)
	if o == nil {
		return sval{}, false
	}
	switch oo := o.(type) {
	case *types.Const:
		return fx.constVal(oo.Val(), oo.Type()), true
	case *types.Var:
		t := fx.globalTerm(found.Path()+"."+name, oo.Type())
		return sval{term: t, typ: oo.Type(), sort: fx.d.SortOf(oo.Type())}, true
	}
	return sval{}, false
}

func (fx *fnExec) constVal(v constant.Value, t types.Type) sval {
	switch v.Kind() {
	case constant.Bool:
		return sval{term: fmt.Sprint(constant.BoolVal(v)), typ: tBool, sort: "Bool"}
	case constant.String:
		return sval{term: fx.d.Lit(constant.StringVal(v)), typ: tString, sort: "Str"}
	case constant.Int:
		s := fx.d.SortOf(t)
		if b, ok := t.Underlying().(*types.Basic); ok && b.Info()&types.IsUntyped != 0 {
			s = "Int"
		}
		if s == "(_ BitVec 64)" {
			u, _ := constant.Uint64Val(v)
			return sval{term: fmt.Sprintf("#x%016x", u), typ: t, sort: s}
		}
		str := v.ExactString()
		if strings.HasPrefix(str, "-") {
			str = "(- " + str[1:] + ")"
		}
		return sval{term: str, typ: t, sort: "Int"}
	}
	panic(specErr("unsupported constant %v", v))
}

func (c *specCtx) deref(v sval) sval {
	fx := c.fx
	if v.addr != nil {
		t := fx.loadAddr(c.cur, v.addr)
		return sval{term: t, typ: v.addr.typ, sort: fx.d.SortOf(v.addr.typ)}
	}
	if v.typ != nil {
		if pt, ok := v.typ.Underlying().(*types.Pointer); ok {
			a := fx.addrOfRef(v.term, pt.Elem())
			if a.kind == aStructObj {
				return sval{term: fx.loadStruct(c.cur, v.term, pt.Elem()), typ: pt.Elem(), sort: fx.d.SortOf(pt.Elem())}
			}
			t := fx.loadAddr(c.cur, a)
			return sval{term: t, typ: pt.Elem(), sort: fx.d.SortOf(pt.Elem())}
		}
	}
	panic(specErr("cannot dereference %v", v))
}

func (c *specCtx) field(v sval, name string) sval {
	fx := c.fx
	if v.addr != nil {
		st := structOf(v.addr.typ)
		if st == nil {
			panic(specErr("field %s of non-struct address", name))
		}
		i := fieldIndex(st, name)
		a := v.addr.extend(v.addr.typ, i, st.Field(i).Type())
		t := fx.loadAddr(c.cur, a)
		return sval{term: t, typ: st.Field(i).Type(), sort: fx.d.SortOf(st.Field(i).Type())}
	}
	if v.typ == nil {
		panic(specErr("field %s of untyped value %s", name, v.term))
	}
	switch u := v.typ.Underlying().(type) {
	case *types.Pointer:
		st := structOf(u.Elem())
		if st == nil {
			panic(specErr("field %s of pointer to non-struct", name))
		}
		i := fieldIndex(st, name)
		ft := st.Field(i).Type()
		arr, srt := fx.fieldArr(u.Elem(), i)
		h := fx.heapGet(c.cur, arr, srt)
		return sval{term: "(select " + h + " " + v.term + ")", typ: ft, sort: fx.d.SortOf(ft)}
	case *types.Struct:
		i := fieldIndex(u, name)
		ft := u.Field(i).Type()
		sn := fx.d.SortOf(v.typ)
		return sval{term: fmt.Sprintf("(%s_%d %s)", sn, i, v.term), typ: ft, sort: fx.d.SortOf(ft)}
	}
	panic(specErr("field %s of %s", name, v.typ))
}

func fieldIndex(st *types.Struct, name string) int {
	for i := 0; i < st.NumFields(); i++ {
		if st.Field(i).Name() == name {
			return i
		}
	}
	panic(specErr("no field %s", name))
}

func (c *specCtx) index(v, i sval) sval {
	fx := c.fx
	switch v.sort {
	case "Str":
		return sval{term: "(sat " + v.term + " " + i.term + ")", typ: types.Typ[types.Uint8], sort: "Int"}
	case "Slice":
		et := v.typ.Underlying().(*types.Slice).Elem()
		arr, srt := fx.elemsArr(et)
		h := fx.heapGet(c.cur, arr, srt)
		return sval{term: fmt.Sprintf("(select (select %s (sl_arr %s)) (at (sl_off %s) %s))", h, v.term, v.term, i.term), typ: et, sort: fx.d.SortOf(et)}
	}
	if strings.HasPrefix(v.sort, "(Array ") {
		// ghost array
		rs := arrayRange(v.sort)
		return sval{term: "(select " + v.term + " " + i.term + ")", sort: rs, typ: sortType(rs)}
	}
	if v.typ != nil {
		if mt, ok := v.typ.Underlying().(*types.Map); ok {
			_, mv, _, vs := fx.mapArrs(mt)
			h := fx.heapGet(c.cur, mv, vs)
			return sval{term: "(select (select " + h + " " + v.term + ") " + i.term + ")", typ: mt.Elem(), sort: fx.d.SortOf(mt.Elem())}
		}
	}
	panic(specErr("cannot index %s (sort %s)", v.term, v.sort))
}

func sortType(s string) types.Type {
	switch s {
	case "Int":
		return tInt
	case "Bool":
		return tBool
	case "Str":
		return tString
	case "Iface":
		return tIface
	}
	return nil
}

// arrayRange returns the range sort of "(Array K V)".
func arrayRange(s string) string {
	inner := strings.TrimSuffix(strings.TrimPrefix(s, "(Array "), ")")
	// K may be parenthesised
	depth := 0
	for i, ch := range inner {
		switch ch {
		case '(':
			depth++
		case ')':
			depth--
		case ' ':
			if depth == 0 {
				return inner[i+1:]
			}
		}
	}
	return inner
}

func (c *specCtx) unifyNil(a, b sval) (sval, sval) {
	if a.sort == "nil" && b.sort == "nil" {
		return a, b
	}
	conv := func(n, o sval) sval {
		switch o.sort {
		case "Int":
			return sval{term: "0", typ: o.typ, sort: "Int"}
		case "Iface":
			return sval{term: "iface_nil", typ: o.typ, sort: "Iface"}
		case "Slice":
			return sval{term: "nilslice", typ: o.typ, sort: "Slice"}
		}
		panic(specErr("nil compared with sort %s", o.sort))
	}
	if a.sort == "nil" {
		a = conv(a, b)
	}
	if b.sort == "nil" {
		b = conv(b, a)
	}
	return a, b
}

func (c *specCtx) binary(x *EBinary) sval {
	switch x.Op {
	case "&&", "||", "==>", "<==>":
		a := c.eval(x.X)
		b := c.eval(x.Y)
		if a.sort != "Bool" || b.sort != "Bool" {
			panic(specErr("boolean operator on non-bool in %s", x))
		}
		var t string
		switch x.Op {
		case "&&":
			t = and(a.term, b.term)
		case "||":
			t = or(a.term, b.term)
		case "==>":
			t = "(=> " + a.term + " " + b.term + ")"
		case "<==>":
			t = "(= " + a.term + " " + b.term + ")"
		}
		return sval{term: t, typ: tBool, sort: "Bool"}
	}
	a := c.eval(x.X)
	b := c.eval(x.Y)
	a, b = c.unifyNil(a, b)
	bv := a.sort == "(_ BitVec 64)" || b.sort == "(_ BitVec 64)"
	if bv {
		toBV := func(v sval) sval {
			if v.sort == "Int" {
				var n uint64
				if _, err := fmt.Sscan(v.term, &n); err != nil {
					panic(specErr("cannot convert %s to bitvector", v.term))
				}
				return sval{term: fmt.Sprintf("#x%016x", n), sort: "(_ BitVec 64)", typ: types.Typ[types.Uint64]}
			}
			return v
		}
		a, b = toBV(a), toBV(b)
	}
	switch x.Op {
	case "==", "!=":
		var t string
		if a.sort == "Slice" && b.term == "nilslice" {
			t = "(= (sl_arr " + a.term + ") 0)"
		} else if b.sort == "Slice" && a.term == "nilslice" {
			t = "(= (sl_arr " + b.term + ") 0)"
		} else {
			if a.sort != b.sort && a.sort != "nil" {
				panic(specErr("comparing sorts %s and %s in %s", a.sort, b.sort, x))
			}
			t = "(= " + a.term + " " + b.term + ")"
		}
		if x.Op == "!=" {
			t = not(t)
		}
		return sval{term: t, typ: tBool, sort: "Bool"}
	case "<", "<=", ">", ">=":
		if bv {
			op := map[string]string{"<": "bvult", "<=": "bvule", ">": "bvugt", ">=": "bvuge"}[x.Op]
			return sval{term: "(" + op + " " + a.term + " " + b.term + ")", typ: tBool, sort: "Bool"}
		}
		return sval{term: "(" + x.Op + " " + a.term + " " + b.term + ")", typ: tBool, sort: "Bool"}
	case "+":
		if a.sort == "Str" {
			return sval{term: "(scat " + a.term + " " + b.term + ")", typ: tString, sort: "Str"}
		}
		if bv {
			return sval{term: "(bvadd " + a.term + " " + b.term + ")", typ: a.typ, sort: a.sort}
		}
		return sval{term: "(+ " + a.term + " " + b.term + ")", typ: tInt, sort: "Int"}
	case "-":
		return sval{term: "(- " + a.term + " " + b.term + ")", typ: tInt, sort: "Int"}
	case "*":
		return sval{term: "(* " + a.term + " " + b.term + ")", typ: tInt, sort: "Int"}
	case "/":
		return sval{term: "(div " + a.term + " " + b.term + ")", typ: tInt, sort: "Int"}
	case "%":
		return sval{term: "(mod " + a.term + " " + b.term + ")", typ: tInt, sort: "Int"}
	case "&":
		if bv {
			return sval{term: "(bvand " + a.term + " " + b.term + ")", typ: a.typ, sort: a.sort}
		}
	case "|":
		if bv {
			return sval{term: "(bvor " + a.term + " " + b.term + ")", typ: a.typ, sort: a.sort}
		}
	}
	panic(specErr("unsupported operator %s in %s", x.Op, x))
}

func (c *specCtx) call(x *ECall) sval {
	fx := c.fx
	switch x.Fn {
	case "old":
		if c.old == nil {
			panic(specErr("old() not available here"))
		}
		n := *c
		n.cur = c.old
		n.locals = nil
		return n.eval(x.Args[0])
	case "entry":
		if c.entry == nil {
			panic(specErr("entry() not available here"))
		}
		n := *c
		n.cur = c.entry
		n.locals = nil
		return n.eval(x.Args[0])
	case "len":
		v := c.eval(x.Args[0])
		switch v.sort {
		case "Str":
			return sval{term: "(slen " + v.term + ")", typ: tInt, sort: "Int"}
		case "Slice":
			return sval{term: "(sl_len " + v.term + ")", typ: tInt, sort: "Int"}
		}
		panic(specErr("len of sort %s", v.sort))
	case "cap":
		v := c.eval(x.Args[0])
		return sval{term: "(sl_cap " + v.term + ")", typ: tInt, sort: "Int"}
	case "has":
		m := c.eval(x.Args[0])
		k := c.eval(x.Args[1])
		mt, ok := m.typ.Underlying().(*types.Map)
		if !ok {
			panic(specErr("has() on non-map"))
		}
		md, _, ds, _ := fx.mapArrs(mt)
		h := fx.heapGet(c.cur, md, ds)
		return sval{term: "(and (not (= " + m.term + " 0)) (select (select " + h + " " + m.term + ") " + k.term + "))", typ: tBool, sort: "Bool"}
	case "typeof":
		v := c.eval(x.Args[0])
		return sval{term: "(typeof " + v.term + ")", typ: tInt, sort: "Int"}
	case "typeid":
		// typeid(T) or typeid(ptr(T)): T a type name in pkg scope
		t := c.typeExpr(x.Args[0])
		return sval{term: fmt.Sprint(fx.d.TypeID(t)), typ: tInt, sort: "Int"}
	case "unbox":
		// unbox(T, x)
		t := c.typeExpr(x.Args[0])
		v := c.eval(x.Args[1])
		_, ub := fx.d.Box(t)
		return sval{term: "(" + ub + " " + v.term + ")", typ: t, sort: fx.d.SortOf(t)}
	case "box":
		t := c.typeExpr(x.Args[0])
		v := c.eval(x.Args[1])
		bx, _ := fx.d.Box(t)
		return sval{term: "(" + bx + " " + v.term + ")", typ: tIface, sort: "Iface"}
	case "fresh":
		v := c.eval(x.Args[0])
		if c.old == nil {
			panic(specErr("fresh() needs an old state"))
		}
		r := v.term
		if v.sort == "Slice" {
			r = "(sl_arr " + v.term + ")"
		}
		return sval{term: "(> " + r + " " + c.old.alloc + ")", typ: tBool, sort: "Bool"}
	case "allocated":
		v := c.eval(x.Args[0])
		return sval{term: "(<= " + v.term + " " + c.cur.alloc + ")", typ: tBool, sort: "Bool"}
	case "implements":
		// implements(x, T): the dynamic type of interface value x implements interface T
		v := c.eval(x.Args[0])
		t := c.typeExpr(x.Args[1])
		return sval{term: "(" + fx.implPred(t) + " " + v.term + ")", typ: tBool, sort: "Bool"}
	case "noneset":
		return sval{term: "((as const (Array Int Bool)) false)", sort: "(Array Int Bool)"}
	case "anchoredRegexp":
		// anchoredRegexp(param): the call argument is a constant pattern every match of which starts at
		// the beginning of the text (decided at VC-generation time with regexp/syntax); false otherwise
		id, ok := x.Args[0].(*EIdent)
		if !ok || c.ssaArgs == nil {
			panic(specErr("anchoredRegexp() needs a call argument name"))
		}
		res := "false"
		if sv, ok := c.ssaArgs[id.Name]; ok {
			if k, ok := sv.(*ssa.Const); ok && k.Value != nil && k.Value.Kind() == constant.String {
				if patternAnchored(constant.StringVal(k.Value)) {
					res = "true"
				}
			}
		}
		return sval{term: res, typ: tBool, sort: "Bool"}
	case "zeropointee":
		// zeropointee(argK): the object that the pointer boxed in interface argument argK points to is zero-valued
		id, ok := x.Args[0].(*EIdent)
		if !ok || c.ssaArgs == nil {
			panic(specErr("zeropointee() needs a call argument name"))
		}
		sv, ok := c.ssaArgs[id.Name]
		if !ok {
			panic(specErr("zeropointee(%s): no such argument", id.Name))
		}
		var ptr ssa.Value = sv
		if mi, ok := sv.(*ssa.MakeInterface); ok {
			ptr = mi.X
		}
		pt, isPtr := ptr.Type().Underlying().(*types.Pointer)
		if !isPtr {
			panic(specErr("zeropointee(%s): argument is not a (boxed) pointer", id.Name))
		}
		o := fx.operand(c.cur, ptr)
		var cur string
		if o.addr != nil {
			cur = fx.loadAddr(c.cur, o.addr)
		} else {
			cur = fx.loadAddr(c.cur, fx.addrOfRef(o.term, pt.Elem()))
		}
		return sval{term: "(= " + cur + " " + fx.d.Zero(pt.Elem()) + ")", typ: tBool, sort: "Bool"}
	case "iszero":
		v := c.eval(x.Args[0])
		if v.typ == nil {
			panic(specErr("iszero of untyped value"))
		}
		return sval{term: "(= " + v.term + " " + fx.d.Zero(v.typ) + ")", typ: tBool, sort: "Bool"}
	case "zero":
		t := c.typeExpr(x.Args[0])
		return sval{term: fx.d.Zero(t), typ: t, sort: fx.d.SortOf(t)}
	case "upd":
		a := c.eval(x.Args[0])
		k := c.eval(x.Args[1])
		v := c.eval(x.Args[2])
		return sval{term: "(store " + a.term + " " + k.term + " " + v.term + ")", typ: a.typ, sort: a.sort}
	case "boxed":
		v := c.eval(x.Args[0])
		if v.typ == nil {
			panic(specErr("boxed() of untyped value"))
		}
		bx, _ := fx.d.Box(v.typ)
		return sval{term: "(" + bx + " " + v.term + ")", typ: tIface, sort: "Iface"}
	case "mapunchanged":
		m := c.eval(x.Args[0])
		if c.old == nil {
			panic(specErr("mapunchanged needs old state"))
		}
		mt, ok := m.typ.Underlying().(*types.Map)
		if !ok {
			panic(specErr("mapunchanged on non-map"))
		}
		md, mv, ds, vs := fx.mapArrs(mt)
		return sval{term: fmt.Sprintf("(and (= (select %s %s) (select %s %s)) (= (select %s %s) (select %s %s)))", fx.heapGet(c.cur, md, ds), m.term, fx.heapGet(c.old, md, ds), m.term, fx.heapGet(c.cur, mv, vs), m.term, fx.heapGet(c.old, mv, vs), m.term), typ: tBool, sort: "Bool"}
	case "fill":
		// fill(arr, lo, hi, v): arr with indices [lo,hi) set to v (ghost arrays indexed by int)
		a := c.eval(x.Args[0])
		lo := c.eval(x.Args[1])
		hi := c.eval(x.Args[2])
		v := c.eval(x.Args[3])
		n := fx.fresh("fill", a.sort)
		fx.assume(fmt.Sprintf("(forall ((i Int)) (! (= (select %s i) (ite (and (<= %s i) (< i %s)) %s (select %s i))) :pattern ((select %s i))))", n, lo.term, hi.term, v.term, a.term, n))
		return sval{term: n, typ: a.typ, sort: a.sort}
	case "ref":
		// ref(x): the address-as-integer of a pointer / the object identity
		v := c.eval(x.Args[0])
		if v.addr != nil {
			return sval{term: fx.addrIdentity(v.addr), typ: tRef, sort: "Int"}
		}
		return sval{term: v.term, typ: tRef, sort: "Int"}
	}
	if p, ok := fx.g.cs.Preds[x.Fn]; ok {
		if len(p.Params) != len(x.Args) {
			panic(specErr("pred %s arity", x.Fn))
		}
		m := map[string]Expr{}
		for i, pn := range p.Params {
			m[pn] = x.Args[i]
		}
		return c.eval(substExpr(p.Body, m))
	}
	if u, ok := fx.g.cs.UFs[x.Fn]; ok {
		fx.declareUF(u)
		var as []string
		for _, a := range x.Args {
			as = append(as, c.eval(a).term)
		}
		rs := ghostSort(u.Result)
		t := u.Name
		if len(as) > 0 {
			t = "(" + u.Name + " " + strings.Join(as, " ") + ")"
		}
		return sval{term: t, sort: rs, typ: sortToType(u.Result)}
	}
	panic(specErr("unknown spec function %s", x.Fn))
}

// typeExpr interprets an expression as a type: Name, ptr(Name), pkg.Name
func (c *specCtx) typeExpr(e Expr) types.Type {
	switch x := e.(type) {
	case *EIdent:
		if t := sortToType(x.Name); t != nil {
			return t
		}
		if c.pkg != nil {
			if o := c.pkg.Scope().Lookup(x.Name); o != nil {
				if tn, ok := o.(*types.TypeName); ok {
					return tn.Type()
				}
			}
		}
	case *ECall:
		if x.Fn == "ptr" {
			return types.NewPointer(c.typeExpr(x.Args[0]))
		}
	case *EStar:
		return types.NewPointer(c.typeExpr(x.X))
	case *EField:
		if id, ok := x.X.(*EIdent); ok {
			for _, p := range c.fx.g.allPkgs {
				if p.Name() == id.Name {
					if o := p.Scope().Lookup(x.Name); o != nil {
						if tn, ok := o.(*types.TypeName); ok {
							return tn.Type()
						}
					}
				}
			}
		}
	}
	panic(specErr("not a type: %s", e))
}

// patternAnchored: every match of the pattern starts at the beginning of the text.
func patternAnchored(pat string) bool {
	re, err := syntax.Parse(pat, syntax.Perl)
	if err != nil {
		return false
	}
	var anch func(r *syntax.Regexp) bool
	anch = func(r *syntax.Regexp) bool {
		switch r.Op {
		case syntax.OpBeginText:
			return true
		case syntax.OpCapture:
			return anch(r.Sub[0])
		case syntax.OpConcat:
			return len(r.Sub) > 0 && anch(r.Sub[0])
		case syntax.OpAlternate:
			for _, s := range r.Sub {
				if !anch(s) {
					return false
				}
			}
			return len(r.Sub) > 0
		}
		return false
	}
	return anch(re)
}
