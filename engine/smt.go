package main

import (
	"fmt"
	"go/types"
	"hash/fnv"
	"sort"
	"strings"
)

// Decls collects SMT declarations (sorts, functions, axioms) on demand for one function's VC.
type Decls struct {
	lines    []string
	seen     map[string]bool
	typeIDs  map[string]int
	lits     map[string]string // literal value -> const name
	litOrder []string
	repoPkgs map[string]bool
	boxes    map[string]bool
}

func NewDecls(repoPkgs map[string]bool) *Decls {
	d := &Decls{seen: map[string]bool{}, typeIDs: map[string]int{}, lits: map[string]string{}, repoPkgs: repoPkgs, boxes: map[string]bool{}}
	return d
}

const maxLen = "281474976710656" // 2^48

// preludeHard: quantified string axioms that make model construction hard; dropped in
// counterexample-search queries (candidates are validated by replay on the real code).
func preludeIsHard(l string) bool {
	return strings.Contains(l, "forall") && (strings.Contains(l, "(ssub s a b)") || strings.Contains(l, "(ssub (ssub") || strings.Contains(l, "(scat s t)") || strings.Contains(l, "(= s str_empty)"))
}

var prelude = []string{
	"(declare-sort Str 0)",
	"(declare-sort Iface 0)",
	"(declare-sort Unit 0)",
	"(declare-datatypes ((Slice 0)) (((mk_slice (sl_arr Int) (sl_off Int) (sl_len Int) (sl_cap Int)))))",
	"(declare-fun at (Int Int) Int)",
	"(assert (forall ((o Int) (i Int)) (! (= (at o i) (+ o i)) :pattern ((at o i)))))",
	"(declare-fun slen (Str) Int)",
	"(declare-fun sat (Str Int) Int)",
	"(declare-fun ssub (Str Int Int) Str)",
	"(declare-fun scat (Str Str) Str)",
	"(declare-const str_empty Str)",
	"(assert (= (slen str_empty) 0))",
	"(assert (forall ((s Str)) (! (and (<= 0 (slen s)) (<= (slen s) " + maxLen + ")) :pattern ((slen s)))))",
	"(assert (forall ((s Str)) (! (=> (= (slen s) 0) (= s str_empty)) :pattern ((slen s)))))",
	"(assert (forall ((s Str) (i Int)) (! (and (<= 0 (sat s i)) (<= (sat s i) 255)) :pattern ((sat s i)))))",
	"(assert (forall ((s Str) (a Int) (b Int)) (! (=> (and (<= 0 a) (<= a b) (<= b (slen s))) (= (slen (ssub s a b)) (- b a))) :pattern ((ssub s a b)))))",
	"(assert (forall ((s Str) (a Int) (b Int) (i Int)) (! (=> (and (<= 0 a) (<= a b) (<= b (slen s)) (<= 0 i) (< i (- b a))) (= (sat (ssub s a b) i) (sat s (+ a i)))) :pattern ((sat (ssub s a b) i)))))",
	"(assert (forall ((s Str) (t Str)) (! (= (slen (scat s t)) (+ (slen s) (slen t))) :pattern ((scat s t)))))",
	"(assert (forall ((s Str) (a Int) (b Int) (c Int) (d Int)) (! (=> (and (<= 0 a) (<= a b) (<= b (slen s)) (<= 0 c) (<= c d) (<= d (- b a))) (= (ssub (ssub s a b) c d) (ssub s (+ a c) (+ a d)))) :pattern ((ssub (ssub s a b) c d)))))",
	"(declare-const iface_nil Iface)",
	"(declare-fun typeof (Iface) Int)",
	"(assert (= (typeof iface_nil) 0))",
	"(assert (forall ((x Iface)) (! (>= (typeof x) 0) :pattern ((typeof x)))))",
	"(assert (forall ((x Iface)) (! (=> (= (typeof x) 0) (= x iface_nil)) :pattern ((typeof x)))))",
	"(declare-const unit Unit)",
}

func (d *Decls) add(key, line string) {
	if d.seen[key] {
		return
	}
	d.seen[key] = true
	d.lines = append(d.lines, line)
}

func sanitize(s string) string {
	var b strings.Builder
	for _, c := range s {
		switch {
		case c >= 'a' && c <= 'z', c >= 'A' && c <= 'Z', c >= '0' && c <= '9', c == '_':
			b.WriteRune(c)
		case c == '.', c == '/':
			b.WriteByte('_')
		case c == '*':
			b.WriteString("ptr_")
		case c == '[':
			b.WriteString("L")
		case c == ']':
			b.WriteString("R")
		default:
			b.WriteByte('_')
		}
	}
	return b.String()
}

func shortPkg(p string) string {
	p = strings.TrimPrefix(p, "github.com/varlink/go/")
	return p
}

func typeKey(t types.Type) string {
	s := types.TypeString(t, func(p *types.Package) string { return shortPkg(p.Path()) })
	if len(s) > 60 {
		h := fnv.New32a()
		h.Write([]byte(s))
		return sanitize(s[:40]) + fmt.Sprintf("_%08x", h.Sum32())
	}
	return sanitize(s)
}

func (d *Decls) isRepoType(n *types.Named) bool {
	if n.Obj().Pkg() == nil {
		return false
	}
	return d.repoPkgs[n.Obj().Pkg().Path()]
}

// SortOf maps a Go type to an SMT sort, declaring what is needed.
func (d *Decls) SortOf(t types.Type) string {
	switch tt := t.(type) {
	case *types.Named:
		if st, ok := tt.Underlying().(*types.Struct); ok {
			if d.isRepoType(tt) {
				return d.structSort(tt, st)
			}
			name := "X_" + typeKey(tt)
			d.add("sort:"+name, "(declare-sort "+name+" 0)")
			d.add("zero:"+name, "(declare-const zero_"+name+" "+name+")")
			return name
		}
		return d.SortOf(tt.Underlying())
	case *types.Alias:
		return d.SortOf(types.Unalias(tt))
	case *types.Basic:
		switch {
		case tt.Kind() == types.Uint64:
			return "(_ BitVec 64)"
		case tt.Info()&types.IsBoolean != 0:
			return "Bool"
		case tt.Info()&types.IsInteger != 0:
			return "Int"
		case tt.Info()&types.IsString != 0:
			return "Str"
		case tt.Info()&types.IsFloat != 0:
			return "Real"
		case tt.Kind() == types.UnsafePointer:
			return "Int"
		case tt.Kind() == types.UntypedNil:
			return "Int"
		}
	case *types.Pointer, *types.Map, *types.Chan, *types.Signature:
		return "Int"
	case *types.Slice:
		return "Slice"
	case *types.Interface:
		return "Iface"
	case *types.Struct:
		return d.structSort(nil, tt)
	case *types.Array:
		// array values are not supported as first-class; pointer-to-array handled via Elems
		return "Int"
	case *types.Tuple:
		return "Unit"
	}
	panic(engineErr("unsupported type " + t.String()))
}

func (d *Decls) structName(named *types.Named, st *types.Struct) string {
	if named != nil {
		return "S_" + typeKey(named)
	}
	return "S_anon_" + typeKey(st)
}

func (d *Decls) structSort(named *types.Named, st *types.Struct) string {
	name := d.structName(named, st)
	if d.seen["sort:"+name] {
		return name
	}
	d.seen["sort:"+name] = true
	var fs []string
	for i := 0; i < st.NumFields(); i++ {
		fs = append(fs, fmt.Sprintf("(%s_%d %s)", name, i, d.SortOf(st.Field(i).Type())))
	}
	if st.NumFields() == 0 {
		d.lines = append(d.lines, fmt.Sprintf("(declare-datatypes ((%s 0)) (((mk_%s))))", name, name))
	} else {
		d.lines = append(d.lines, fmt.Sprintf("(declare-datatypes ((%s 0)) (((mk_%s %s))))", name, name, strings.Join(fs, " ")))
	}
	return name
}

// Zero returns the zero value term of a type.
func (d *Decls) Zero(t types.Type) string {
	s := d.SortOf(t)
	switch s {
	case "Int":
		return "0"
	case "Bool":
		return "false"
	case "Str":
		return "str_empty"
	case "Iface":
		return "iface_nil"
	case "Slice":
		return "(mk_slice 0 0 0 0)"
	case "(_ BitVec 64)":
		return "#x0000000000000000"
	case "Real":
		return "0.0"
	case "Unit":
		return "unit"
	}
	if strings.HasPrefix(s, "X_") {
		return "zero_" + s
	}
	if strings.HasPrefix(s, "S_") {
		st := structOf(t)
		if st.NumFields() == 0 {
			return "mk_" + s
		}
		var fs []string
		for i := 0; i < st.NumFields(); i++ {
			fs = append(fs, d.Zero(st.Field(i).Type()))
		}
		return "(mk_" + s + " " + strings.Join(fs, " ") + ")"
	}
	panic(engineErr("no zero for sort " + s))
}

func structOf(t types.Type) *types.Struct {
	st, _ := t.Underlying().(*types.Struct)
	return st
}

func namedOf(t types.Type) *types.Named {
	t = types.Unalias(t)
	n, _ := t.(*types.Named)
	return n
}

// TypeID gives a positive integer identifying a dynamic type.
func (d *Decls) TypeID(t types.Type) int {
	k := types.TypeString(t, nil)
	if id, ok := d.typeIDs[k]; ok {
		return id
	}
	id := len(d.typeIDs) + 1
	d.typeIDs[k] = id
	return id
}

// Box declares boxing functions for concrete type t and returns (box, unbox) names.
func (d *Decls) Box(t types.Type) (string, string) {
	k := typeKey(t)
	box, unbox := "box_"+k, "unbox_"+k
	if !d.boxes[k] {
		d.boxes[k] = true
		s := d.SortOf(t)
		id := d.TypeID(t)
		d.lines = append(d.lines,
			fmt.Sprintf("(declare-fun %s (%s) Iface)", box, s),
			fmt.Sprintf("(declare-fun %s (Iface) %s)", unbox, s),
			fmt.Sprintf("(assert (forall ((x %s)) (! (and (= (%s (%s x)) x) (= (typeof (%s x)) %d)) :pattern ((%s x)))))", s, unbox, box, box, id, box),
			fmt.Sprintf("(assert (forall ((i Iface)) (! (=> (= (typeof i) %d) (= (%s (%s i)) i)) :pattern ((%s i)))))", id, box, unbox, unbox),
		)
	}
	return box, unbox
}

// Lit returns a constant naming the string literal.
func (d *Decls) Lit(v string) string {
	if v == "" {
		return "str_empty"
	}
	if n, ok := d.lits[v]; ok {
		return n
	}
	n := fmt.Sprintf("lit!%d", len(d.lits))
	d.lits[v] = n
	d.litOrder = append(d.litOrder, v)
	return n
}

// LitDecls emits declarations for all literals (call at the end).
func (d *Decls) LitDecls() []string {
	var out []string
	var names []string
	for _, v := range d.litOrder {
		n := d.lits[v]
		names = append(names, n)
		out = append(out, fmt.Sprintf("(declare-const %s Str)", n))
		var conj []string
		conj = append(conj, fmt.Sprintf("(= (slen %s) %d)", n, len(v)))
		if len(v) <= 64 {
			for i := 0; i < len(v); i++ {
				conj = append(conj, fmt.Sprintf("(= (sat %s %d) %d)", n, i, v[i]))
			}
		}
		out = append(out, "(assert (and "+strings.Join(conj, " ")+"))")
	}
	if len(names) > 1 {
		out = append(out, "(assert (distinct "+strings.Join(names, " ")+"))")
	}
	return out
}

func ghostSort(s string) string {
	s = strings.TrimSpace(s)
	if strings.HasPrefix(s, "[") {
		i := strings.Index(s, "]")
		return "(Array " + ghostSort(s[1:i]) + " " + ghostSort(s[i+1:]) + ")"
	}
	switch s {
	case "int", "ref":
		return "Int"
	case "bool":
		return "Bool"
	case "string":
		return "Str"
	case "iface":
		return "Iface"
	case "slice", "bytes", "strs":
		return "Slice"
	}
	if strings.HasPrefix(s, "smt:") {
		return strings.TrimPrefix(s, "smt:")
	}
	panic(engineErr("bad ghost sort " + s))
}

func and(xs ...string) string {
	var ys []string
	for _, x := range xs {
		if x == "true" || x == "" {
			continue
		}
		ys = append(ys, x)
	}
	switch len(ys) {
	case 0:
		return "true"
	case 1:
		return ys[0]
	}
	return "(and " + strings.Join(ys, " ") + ")"
}

func or(xs ...string) string {
	var ys []string
	for _, x := range xs {
		if x == "false" || x == "" {
			continue
		}
		ys = append(ys, x)
	}
	switch len(ys) {
	case 0:
		return "false"
	case 1:
		return ys[0]
	}
	return "(or " + strings.Join(ys, " ") + ")"
}

func not(x string) string {
	if x == "true" {
		return "false"
	}
	if x == "false" {
		return "true"
	}
	return "(not " + x + ")"
}

func implies(a, b string) string {
	if a == "true" {
		return b
	}
	return "(=> " + a + " " + b + ")"
}

func intRange(t types.Type) (lo, hi string, ok bool) {
	b, isB := t.Underlying().(*types.Basic)
	if !isB || b.Info()&types.IsInteger == 0 {
		return "", "", false
	}
	switch b.Kind() {
	case types.Int, types.Int64, types.UntypedInt:
		return "(- 9223372036854775808)", "9223372036854775807", true
	case types.Int32, types.UntypedRune:
		return "(- 2147483648)", "2147483647", true
	case types.Int16:
		return "(- 32768)", "32767", true
	case types.Int8:
		return "(- 128)", "127", true
	case types.Uint8:
		return "0", "255", true
	case types.Uint16:
		return "0", "65535", true
	case types.Uint32:
		return "0", "4294967295", true
	case types.Uint, types.Uintptr:
		return "0", "18446744073709551615", true
	}
	return "", "", false
}

type engineErr string

func (e engineErr) Error() string { return string(e) }

func sortedKeys(m map[string]string) []string {
	var ks []string
	for k := range m {
		ks = append(ks, k)
	}
	sort.Strings(ks)
	return ks
}
