package main

import (
	"fmt"
	"go/ast"
	"go/constant"
	"go/token"
	"go/types"
	"os"
	"path/filepath"
	"reflect"
	"sort"
	"strings"

	"golang.org/x/tools/go/packages"
	"golang.org/x/tools/go/ssa"
	"golang.org/x/tools/go/ssa/ssautil"
)

const modPath = "github.com/varlink/go"

var repoPkgList = []string{
	modPath + "/varlink",
	modPath + "/varlink/idl",
	modPath + "/varlink/internal/ctxio",
	modPath + "/cmd/varlink-go-interface-generator",
}

type Gen struct {
	cs        *ContractSet
	prog      *ssa.Program
	pkgs      []*packages.Package
	repoPkgs  map[string]bool
	allPkgs   []*types.Package
	fset      *token.FileSet
	occ       map[*ssa.Function]map[string][]token.Pos
	src       map[string][]byte
	funcs     map[string]*ssa.Function
	sweep     []sweepItem // contract-less functions to analyse for crash-freedom only
	rxGlobals map[string]string
	dryRun    map[*ssa.Function]bool
	typesPkg  map[string]*types.Package
	callees   map[*ssa.Function][]*ssa.Function
	repoDir   string
}

func LoadGen(repoDir string, cs *ContractSet) (*Gen, error) {
	g := &Gen{cs: cs, repoPkgs: map[string]bool{}, occ: map[*ssa.Function]map[string][]token.Pos{}, src: map[string][]byte{}, funcs: map[string]*ssa.Function{}, typesPkg: map[string]*types.Package{}, callees: map[*ssa.Function][]*ssa.Function{}, repoDir: repoDir}
	for _, p := range repoPkgList {
		g.repoPkgs[p] = true
	}
	cfg := &packages.Config{Mode: packages.LoadAllSyntax, Dir: repoDir, BuildFlags: []string{"-tags=verif"},
		Env: append(os.Environ(), "GOFLAGS=-mod=mod", "GOPROXY=off", "GOSUMDB=off", "GOTOOLCHAIN=local")}
	pkgs, err := packages.Load(cfg, "./varlink", "./varlink/idl", "./varlink/internal/ctxio", "./cmd/varlink-go-interface-generator")
	if err != nil {
		return nil, err
	}
	nerr := 0
	packages.Visit(pkgs, nil, func(p *packages.Package) {
		for _, e := range p.Errors {
			if g.repoPkgs[p.PkgPath] {
				fmt.Fprintf(os.Stderr, "load error: %v\n", e)
				nerr++
			}
		}
		if p.Types != nil {
			g.allPkgs = append(g.allPkgs, p.Types)
			g.typesPkg[p.PkgPath] = p.Types
		}
	})
	if nerr > 0 {
		return nil, fmt.Errorf("%d load errors in repository packages", nerr)
	}
	sort.Slice(g.allPkgs, func(i, j int) bool { return g.allPkgs[i].Path() < g.allPkgs[j].Path() })
	g.pkgs = pkgs
	prog, _ := ssautil.AllPackages(pkgs, ssa.NaiveForm|ssa.GlobalDebug)
	prog.Build()
	g.prog = prog
	g.fset = prog.Fset
	for _, p := range pkgs {
		sp := prog.Package(p.Types)
		if sp == nil {
			continue
		}
		var add func(fn *ssa.Function)
		add = func(fn *ssa.Function) {
			if fn == nil || fn.Synthetic != "" && !strings.HasPrefix(fn.Name(), "init") {
				return
			}
			g.funcs[p.PkgPath+"::"+g.relKey(fn)] = fn
			for _, a := range fn.AnonFuncs {
				add(a)
			}
		}
		for _, m := range sp.Members {
			switch x := m.(type) {
			case *ssa.Function:
				add(x)
			case *ssa.Type:
				for _, t := range []types.Type{x.Type(), types.NewPointer(x.Type())} {
					ms := prog.MethodSets.MethodSet(t)
					for i := 0; i < ms.Len(); i++ {
						f := prog.MethodValue(ms.At(i))
						if f != nil && f.Synthetic == "" {
							add(f)
						}
					}
				}
			}
		}
	}
	return g, nil
}

func (g *Gen) fnPkgPath(fn *ssa.Function) string {
	f := fn
	for f.Parent() != nil {
		f = f.Parent()
	}
	if f.Pkg != nil {
		return f.Pkg.Pkg.Path()
	}
	if recv := f.Signature.Recv(); recv != nil {
		t := recv.Type()
		if pt, ok := t.(*types.Pointer); ok {
			t = pt.Elem()
		}
		if n := namedOf(t); n != nil && n.Obj().Pkg() != nil {
			return n.Obj().Pkg().Path()
		}
	}
	return ""
}

func (g *Gen) relKey(fn *ssa.Function) string {
	p := g.fnPkgPath(fn)
	s := fn.String()
	if p != "" {
		s = strings.ReplaceAll(s, p+".", "")
	}
	return s
}

func (g *Gen) pkgShort(fn *ssa.Function) string {
	p := g.fnPkgPath(fn)
	switch p {
	case modPath + "/cmd/varlink-go-interface-generator":
		return "generator"
	}
	return filepath.Base(p)
}

func (g *Gen) nodeSrc(n ast.Node) string {
	p0 := g.fset.Position(n.Pos())
	p1 := g.fset.Position(n.End())
	b, ok := g.src[p0.Filename]
	if !ok {
		b, _ = os.ReadFile(p0.Filename)
		g.src[p0.Filename] = b
	}
	if p0.Offset < 0 || p1.Offset > len(b) || p0.Offset > p1.Offset {
		return ""
	}
	s := string(b[p0.Offset:p1.Offset])
	s = strings.Join(strings.Fields(s), " ")
	if len(s) > 80 {
		s = s[:80]
	}
	return s
}

func (g *Gen) occurrenceOf(fx *fnExec, text string, pos token.Pos) int {
	ps := fx.textPos[text]
	for i, p := range ps {
		if p == pos {
			return i + 1
		}
	}
	return 1
}

func (g *Gen) lookupType(pkgPath, name string) types.Type {
	if i := strings.LastIndex(name, "."); i >= 0 {
		// qualified by package name
		pn, tn := name[:i], name[i+1:]
		for _, p := range g.allPkgs {
			if p.Name() == pn || p.Path() == pn {
				if o := p.Scope().Lookup(tn); o != nil {
					return o.Type()
				}
			}
		}
		return nil
	}
	if p := g.typesPkg[pkgPath]; p != nil {
		if o := p.Scope().Lookup(name); o != nil {
			return o.Type()
		}
	}
	return nil
}

func (g *Gen) globalFor(v *types.Var) interface{} { return v }

// sameSCC: b can reach a through static calls (a calls b is given by the call site).
func (g *Gen) sameSCC(a, b *ssa.Function) bool {
	if a == b {
		return true
	}
	seen := map[*ssa.Function]bool{}
	var dfs func(f *ssa.Function) bool
	dfs = func(f *ssa.Function) bool {
		if f == a {
			return true
		}
		if seen[f] {
			return false
		}
		seen[f] = true
		for _, c := range g.staticCallees(f) {
			if dfs(c) {
				return true
			}
		}
		return false
	}
	return dfs(b)
}

func (g *Gen) staticCallees(f *ssa.Function) []*ssa.Function {
	if cs, ok := g.callees[f]; ok {
		return cs
	}
	var out []*ssa.Function
	for _, b := range f.Blocks {
		for _, in := range b.Instrs {
			if c, ok := in.(ssa.CallInstruction); ok {
				if sc := c.Common().StaticCallee(); sc != nil && len(sc.Blocks) > 0 && g.repoPkgs[g.fnPkgPath(sc)] {
					out = append(out, sc)
				}
			}
		}
	}
	g.callees[f] = out
	return out
}

// ---------------------------------------------------------------- static view of modifies clauses

// staticType computes the Go type of a spec expression given parameter types (no evaluation).
func (g *Gen) staticType(e Expr, names map[string]types.Type) types.Type {
	switch x := e.(type) {
	case *EIdent:
		return names[x.Name]
	case *EField:
		t := g.staticType(x.X, names)
		if t == nil {
			return nil
		}
		if pt, ok := t.Underlying().(*types.Pointer); ok {
			t = pt.Elem()
		}
		st := structOf(t)
		if st == nil {
			return nil
		}
		for i := 0; i < st.NumFields(); i++ {
			if st.Field(i).Name() == x.Name {
				return st.Field(i).Type()
			}
		}
	case *EStar:
		t := g.staticType(x.X, names)
		if t == nil {
			return nil
		}
		if pt, ok := t.Underlying().(*types.Pointer); ok {
			return pt.Elem()
		}
	case *EIndex:
		t := g.staticType(x.X, names)
		if t == nil {
			return nil
		}
		switch u := t.Underlying().(type) {
		case *types.Slice:
			return u.Elem()
		case *types.Map:
			return u.Elem()
		}
	}
	return nil
}

// modStatic: which state components a callee's modifies entry may touch at call site cc, syntactically.
func (g *Gen) modStatic(fx *fnExec, ct *Contract, info *calleeInfo, cc *ssa.CallCommon, m Expr) (locs []loc, ghost string, ref ssa.Value) {
	names := map[string]types.Type{}
	argv := map[string]ssa.Value{}
	var args []ssa.Value
	if cc != nil {
		if cc.IsInvoke() {
			args = append(args, cc.Value)
		}
		args = append(args, cc.Args...)
		if mc, ok := cc.Value.(*ssa.MakeClosure); ok {
			args = append(args, mc.Bindings...)
		}
	}
	for i, n := range info.names {
		if i < len(info.ptypes) {
			names[n] = info.ptypes[i]
		}
		if i < len(args) {
			argv[n] = args[i]
		}
	}
	switch x := m.(type) {
	case *EIdent:
		if _, ok := g.cs.Ghosts[x.Name]; ok {
			return nil, x.Name, nil
		}
	case *EStar:
		if id, ok := x.X.(*EIdent); ok {
			if v, ok := argv[id.Name]; ok {
				cells := map[*ssa.Alloc]bool{}
				fx.staticStoreTarget(v, cells, &locs)
				for c := range cells {
					locs = append(locs, loc{cellLocal: c})
				}
				if fa, ok := v.(*ssa.FieldAddr); ok {
					return locs, "", fa.X
				}
				return locs, "", v
			}
		}
		t := g.staticType(x.X, names)
		if t != nil {
			if pt, ok := t.Underlying().(*types.Pointer); ok {
				el := pt.Elem()
				if structOf(el) != nil && !fx.isOpaqueStruct(el) {
					for i := 0; i < structOf(el).NumFields(); i++ {
						arr, srt := fx.fieldArr(el, i)
						locs = append(locs, loc{arr: arr, sort: srt})
					}
				} else {
					arr, srt := fx.cellArr(el)
					locs = append(locs, loc{arr: arr, sort: srt})
				}
				return locs, "", nil
			}
		}
	case *EField:
		t := g.staticType(x.X, names)
		if t != nil {
			if pt, ok := t.Underlying().(*types.Pointer); ok && structOf(pt.Elem()) != nil {
				arr, srt := fx.fieldArr(pt.Elem(), fieldIndex(structOf(pt.Elem()), x.Name))
				if id, ok := x.X.(*EIdent); ok {
					ref = argv[id.Name]
				}
				return []loc{{arr: arr, sort: srt}}, "", ref
			}
		}
	case *ECall:
		switch x.Fn {
		case "pointee":
			if id, ok := x.Args[0].(*EIdent); ok {
				if v, ok := argv[id.Name]; ok {
					if mi, ok := v.(*ssa.MakeInterface); ok {
						if _, isPtr := mi.X.Type().Underlying().(*types.Pointer); isPtr {
							cells := map[*ssa.Alloc]bool{}
							fx.staticStoreTarget(mi.X, cells, &locs)
							for c := range cells {
								locs = append(locs, loc{cellLocal: c})
							}
							return locs, "", mi.X
						}
						return nil, "", nil
					}
				}
			}
			return nil, "", nil
		case "elems":
			t := g.staticType(x.Args[0], names)
			if t != nil {
				if sl, ok := t.Underlying().(*types.Slice); ok {
					arr, srt := fx.elemsArr(sl.Elem())
					return []loc{{arr: arr, sort: srt}}, "", nil
				}
			}
		case "mapof":
			t := g.staticType(x.Args[0], names)
			if t != nil {
				if mt, ok := t.Underlying().(*types.Map); ok {
					md, mv, ds, vs := fx.mapArrs(mt)
					return []loc{{arr: md, sort: ds}, {arr: mv, sort: vs}}, "", nil
				}
			}
		case "anyfield":
			if f, ok := x.Args[0].(*EField); ok {
				pk := ""
				if info.pkg != nil {
					pk = info.pkg.Path()
				}
				if t := g.lookupType(pk, f.X.String()); t != nil {
					arr, srt := fx.fieldArr(t, fieldIndex(structOf(t), f.Name))
					return []loc{{arr: arr, sort: srt}}, "", nil
				}
			}
		}
	}
	panic(engineErr(fmt.Sprintf("cannot resolve modifies entry %s of %s statically", m, ct.Key)))
}

var deterministicPkgs = map[string]bool{"strings": true, "bytes": true, "fmt": true, "strconv": true, "regexp": true, "go/format": true, "errors": true, "unicode": true, "unicode/utf8": true, "sort": true, "path": true}

// nondeterminism scans the static call graph of f for sources of nondeterminism; "" if none.
func (g *Gen) nondeterminism(f *ssa.Function, seen map[*ssa.Function]bool) string {
	if seen[f] {
		return ""
	}
	seen[f] = true
	for _, b := range f.Blocks {
		for _, in := range b.Instrs {
			switch x := in.(type) {
			case *ssa.Range:
				if _, ok := x.X.Type().Underlying().(*types.Map); ok {
					return "range over a map in " + f.String()
				}
			case *ssa.Go:
				return "go statement in " + f.String()
			case *ssa.Select:
				return "select in " + f.String()
			case ssa.CallInstruction:
				cc := x.Common()
				if cc.IsInvoke() {
					continue // interface calls on values derived from the arguments
				}
				callee := cc.StaticCallee()
				if callee == nil {
					continue
				}
				pk := g.fnPkgPath(callee)
				if g.repoPkgs[pk] {
					if w := g.nondeterminism(callee, seen); w != "" {
						return w
					}
					continue
				}
				if !deterministicPkgs[pk] {
					return "call to " + callee.String() + " in " + f.String()
				}
			}
		}
	}
	return ""
}

// resolveSchemaType: TypeName | FuncKey:Type | FuncKey:var(name), relative to the package of fx.
func (g *Gen) resolveSchemaType(fx *fnExec, ref string) *types.Struct {
	pkg := g.fnPkgPath(fx.fn)
	i := strings.LastIndex(ref, ":")
	if i < 0 {
		if t := g.lookupType(pkg, ref); t != nil {
			return structOf(t)
		}
		return nil
	}
	fkey, tn := ref[:i], ref[i+1:]
	fn := g.funcs[pkg+"::"+fkey]
	if fn == nil {
		return nil
	}
	var found *types.Struct
	var visit func(f *ssa.Function)
	visit = func(f *ssa.Function) {
		for _, b := range f.Blocks {
			for _, in := range b.Instrs {
				al, ok := in.(*ssa.Alloc)
				if !ok {
					continue
				}
				et := deref(al.Type())
				if strings.HasPrefix(tn, "var(") {
					if al.Comment == strings.TrimSuffix(strings.TrimPrefix(tn, "var("), ")") && structOf(et) != nil {
						found = structOf(et)
					}
				} else if n := namedOf(et); n != nil && n.Obj().Name() == tn && structOf(et) != nil {
					found = structOf(et)
				}
			}
		}
	}
	visit(fn)
	return found
}

func jsonKey(st *types.Struct, i int) (key string, tagged bool, skip bool) {
	f := st.Field(i)
	if !f.Exported() {
		return "", false, true
	}
	tag := reflect.StructTag(st.Tag(i)).Get("json")
	if tag == "-" {
		return "", false, true
	}
	name := strings.Split(tag, ",")[0]
	if name != "" {
		return name, true, false
	}
	return f.Name(), false, false
}

func jsonCategory(t types.Type) string {
	switch u := t.Underlying().(type) {
	case *types.Basic:
		switch {
		case u.Info()&types.IsString != 0:
			return "string"
		case u.Info()&types.IsBoolean != 0:
			return "bool"
		case u.Info()&types.IsNumeric != 0:
			return "number"
		}
	case *types.Slice:
		if b, ok := u.Elem().Underlying().(*types.Basic); ok && b.Kind() == types.Uint8 {
			return "any" // json.RawMessage / []byte
		}
		return "[]" + jsonCategory(u.Elem())
	case *types.Map:
		return "map" + jsonCategory(u.Elem())
	case *types.Pointer:
		return jsonCategory(u.Elem())
	case *types.Interface:
		return "any"
	case *types.Struct:
		return "object"
	}
	return "?"
}

// schemaMismatch: "" when every key the encoder struct writes is matched by a decoder field by
// encoding/json's rule (exact key, else case-insensitive) with a compatible type.
func (g *Gen) schemaMismatch(fx *fnExec, encRef, decRef string) string {
	enc := g.resolveSchemaType(fx, encRef)
	dec := g.resolveSchemaType(fx, decRef)
	if enc == nil {
		return "cannot resolve " + encRef
	}
	if dec == nil {
		return "cannot resolve " + decRef
	}
	for i := 0; i < enc.NumFields(); i++ {
		k, _, skip := jsonKey(enc, i)
		if skip {
			continue
		}
		match := -1
		for j := 0; j < dec.NumFields(); j++ {
			dk, _, dskip := jsonKey(dec, j)
			if !dskip && dk == k {
				match = j
			}
		}
		if match < 0 {
			for j := 0; j < dec.NumFields(); j++ {
				dk, _, dskip := jsonKey(dec, j)
				if !dskip && strings.EqualFold(dk, k) {
					match = j
				}
			}
		}
		if match < 0 {
			return fmt.Sprintf("key %q written by %s has no field in %s", k, encRef, decRef)
		}
		ce, cd := jsonCategory(enc.Field(i).Type()), jsonCategory(dec.Field(match).Type())
		if ce != cd && ce != "any" && cd != "any" {
			return fmt.Sprintf("key %q: %s written, %s expected", k, ce, cd)
		}
	}
	return ""
}

type sweepItem struct {
	fn    *ssa.Function
	props []string
}

// queueSweep schedules a contract-less function of this module for a crash-freedom-only analysis.
func (g *Gen) queueSweep(fn *ssa.Function, props []string) {
	for _, it := range g.sweep {
		if it.fn == fn {
			return
		}
	}
	g.sweep = append(g.sweep, sweepItem{fn, props})
}

// staticPure: syntactic check that a function of this module (and everything it statically calls inside
// the module) writes no memory visible to its caller: no stores through parameters, fields, elements or
// globals, no map updates, channel operations, goroutines or defers; external callees must have an assumed
// contract without a modifies clause. Used for contract-less helpers that cannot be executed in place.
func (g *Gen) staticPure(fn *ssa.Function, seen map[*ssa.Function]bool) bool {
	if fn == nil || len(fn.Blocks) == 0 {
		return false
	}
	if seen[fn] {
		return true
	}
	seen[fn] = true
	for _, b := range fn.Blocks {
		for _, in := range b.Instrs {
			switch x := in.(type) {
			case *ssa.Store:
				if root, ok := rootAlloc(x.Addr); ok && !root.Heap {
					continue
				}
				if al, ok := x.Addr.(*ssa.Alloc); ok && !al.Heap {
					continue
				}
				return false
			case *ssa.MapUpdate, *ssa.Send, *ssa.Go, *ssa.Defer, *ssa.Select, *ssa.Panic:
				return false
			case *ssa.Call:
				cc := x.Common()
				if cc.IsInvoke() {
					return false
				}
				if _, ok := cc.Value.(*ssa.Builtin); ok {
					if cc.Value.Name() == "append" || cc.Value.Name() == "copy" || cc.Value.Name() == "delete" {
						return false
					}
					continue
				}
				callee := cc.StaticCallee()
				if callee == nil {
					return false
				}
				if len(callee.Blocks) > 0 && callee.Pkg != nil && strings.HasPrefix(callee.Pkg.Pkg.Path(), modPath) {
					if !g.staticPure(callee, seen) {
						return false
					}
					continue
				}
				ct, _ := g.contractForFn(callee)
				if ct == nil || ct.HavocArgs || len(ct.Modifies) > 0 {
					return false
				}
			}
		}
	}
	return true
}

// globalRegexps: package-level variables of this module initialised with regexp.MustCompile(<constant>).
func (g *Gen) globalRegexps() map[string]string {
	if g.rxGlobals != nil {
		return g.rxGlobals
	}
	g.rxGlobals = map[string]string{}
	seen := map[*ssa.Function]bool{}
	for _, fn := range g.funcs {
		if fn == nil || fn.Pkg == nil {
			continue
		}
		init := fn.Pkg.Func("init")
		if init == nil || seen[init] {
			continue
		}
		seen[init] = true
		for _, b := range init.Blocks {
			for _, in := range b.Instrs {
				st, ok := in.(*ssa.Store)
				if !ok {
					continue
				}
				gl, ok := st.Addr.(*ssa.Global)
				if !ok {
					continue
				}
				call, ok := st.Val.(*ssa.Call)
				if !ok {
					continue
				}
				callee := call.Common().StaticCallee()
				if callee == nil || callee.String() != "regexp.MustCompile" || len(call.Common().Args) != 1 {
					continue
				}
				if k, ok := call.Common().Args[0].(*ssa.Const); ok && k.Value != nil && k.Value.Kind() == constant.String {
					g.rxGlobals[gl.Pkg.Pkg.Path()+"."+gl.Name()] = constant.StringVal(k.Value)
				}
			}
		}
	}
	return g.rxGlobals
}

// dryRunOK: can the engine execute this contract-less function at all (under an empty contract)?
func (g *Gen) dryRunOK(f *ssa.Function) (ok bool) {
	if g.dryRun == nil {
		g.dryRun = map[*ssa.Function]bool{}
	}
	if v, seen := g.dryRun[f]; seen {
		return v
	}
	g.dryRun[f] = true // provisional (recursion through helpers)
	defer func() {
		if r := recover(); r != nil {
			ok = false
		}
		g.dryRun[f] = ok
	}()
	ct := &Contract{Key: g.relKey(f), Pkg: g.fnPkgPath(f), Loops: map[int]*LoopSpec{}}
	fx := newFnExec(g, f, ct)
	fx.sweep = true
	return fx.run() == nil
}
