package main

import (
	"fmt"
	"go/ast"
	"go/constant"
	"go/token"
	"go/types"
	"sort"
	"strconv"
	"strings"

	"golang.org/x/tools/go/ssa"
)

// ---------------------------------------------------------------- state

type state struct {
	cells  map[*ssa.Alloc]string
	heap   map[string]string
	ghost  map[string]string
	alloc  string
	defers []*ssa.Defer
}

func (s *state) clone() *state {
	n := &state{cells: map[*ssa.Alloc]string{}, heap: map[string]string{}, ghost: map[string]string{}, alloc: s.alloc, defers: s.defers}
	for k, v := range s.cells {
		n.cells[k] = v
	}
	for k, v := range s.heap {
		n.heap[k] = v
	}
	for k, v := range s.ghost {
		n.ghost[k] = v
	}
	return n
}

// ---------------------------------------------------------------- addresses

const (
	aLocal = iota
	aField
	aCell
	aElem
	aGlobal
	aStructObj // whole heap struct object (ref)
)

type pathStep struct {
	st    types.Type
	field int
}

type addr struct {
	kind   int
	cell   *ssa.Alloc
	ref    string
	st     types.Type // aField: struct type that owns field
	field  int
	arr    string // aElem
	idx    string
	base   types.Type // type of the base location (before path)
	global string
	path   []pathStep
	typ    types.Type // type of location after path
}

func (a *addr) extend(st types.Type, field int, ft types.Type) *addr {
	n := *a
	n.path = append(append([]pathStep{}, a.path...), pathStep{st, field})
	n.typ = ft
	return &n
}

// ---------------------------------------------------------------- values

type val struct {
	term     string
	addr     *addr
	tuple    []val
	typ      types.Type
	constLen int // >0: slice with this constant length backed by fresh array
	closure  *ssa.Function
	bindings []val
	isNilC   bool
}

// ---------------------------------------------------------------- obligations

type assertion struct {
	blk  int // -1 global
	text string
}

type oblPart struct {
	ghost   map[string]string // ghost terms at this point (for counterexample extraction)
	blk     int
	nassert int
	reach   string
	neg     string // negated goal
	pos     token.Pos
}

type Obligation struct {
	Name     string
	Kind     string
	Fn       string
	Props    []string
	Parts    []oblPart
	Src      string
	Pos      string
	Canary   bool // must-fail canary
	NewField bool // frame obligation of a store to a field added after the baseline
	fx       *fnExec
	// results
	Status   string // unsat sat unknown timeout error
	Solver   string
	TimeS    float64
	Model    string
	FailPart int
	Vacuous  bool
	Output   string
}

// ---------------------------------------------------------------- fnExec

type loopInfo struct {
	head    *ssa.BasicBlock
	ordinal int
	blocks  map[int]bool
	spec    *LoopSpec
	// at head after havoc
	headState *state
	entry     *state
	variant0  string
	hasV      bool
	rangeCell *ssa.Alloc
	rangeLen  ssa.Value
}

type fnExec struct {
	g    *Gen
	fn   *ssa.Function
	ct   *Contract
	d    *Decls
	pkg  *types.Package
	tags struct{ fun, safety []string }

	declLines       []string
	declSeen        map[string]bool
	asserts         []assertion
	vals            map[ssa.Value]val
	out             map[int]*state
	reach           map[int]string
	edge            map[[2]int]string
	anc             map[int]map[int]bool
	order           []*ssa.BasicBlock
	backEdge        map[[2]int]bool
	loops           map[int]*loopInfo // by head index
	curBlk          int
	nfresh          int
	heapSort        map[string]string
	entry           *state
	params          map[string]sval
	obls            []*Obligation
	oblByName       map[string]*Obligation
	taintedBy       string // set once the function has called an impure contract-less helper as opaque
	sweep           bool   // zero-annotation sweep: no precondition, so only property-level replays count
	textCount       map[string]int
	nodeText        map[token.Pos]string
	callCount       map[string]int
	retParts        []retPoint
	defers          []*ssa.Defer
	unsupported     []string
	ufSeen          map[string]bool
	modLocs         []loc // evaluated modifies at entry
	assumptionsUsed map[string]bool
	calleesUsed     map[string]bool
	goCount         int
	storeCount      map[string]int
	globals         map[string]string
	heapElemType    map[string]types.Type
	heapDepth       map[string]int
	textPos         map[string][]token.Pos
	anchors         map[ssa.Instruction]anchorInfo
	usedAnchors     map[*Clause]bool
	deferArgs       map[*ssa.Defer][]val
	deferFn         map[*ssa.Defer]val
	nreturns        int
	measure         string
	pendingWT       [][2]interface{}
	pendingInv      [][2]interface{}
	warnings        []string
	spawns          map[string]*spawnInfo
	kb              int // key base for block-indexed maps (non-zero while executing an inlined callee)
	ck              int // current block key (kb + block index)
	inl             *inlineCtx
	inlineCount     int
	inlineStack     []*ssa.Function
	oblPrefix       string
	curState        *state
}

type inlineCtx struct {
	rets []inlineRet
	sink *val
	sent bool
}

type inlineRet struct {
	cond    string
	st      *state
	results []val
}

type spawnInfo struct {
	fn   *ssa.Function
	ct   *Contract
	info *calleeInfo
	args []val
	in   ssa.Instruction
}

type retPoint struct {
	blk     int
	nassert int
	reach   string
	st      *state
	results []val
	pos     token.Pos
}

type loc struct {
	arr       string // heap array name ("" for ghost)
	sort      string
	idx       string // index term; "" means whole array
	ghost     string
	path      []pathStep
	vsort     string
	cellLocal *ssa.Alloc
	opaque    string
}

func (fx *fnExec) fail(f string, a ...interface{}) {
	panic(engineErr(fmt.Sprintf("%s: ", fx.fn.String()) + fmt.Sprintf(f, a...)))
}

func (fx *fnExec) declare(name, sort string) {
	if fx.declSeen[name] {
		return
	}
	fx.declSeen[name] = true
	fx.declLines = append(fx.declLines, "(declare-const "+name+" "+sort+")")
}

func (fx *fnExec) fresh(prefix, sort string) string {
	fx.nfresh++
	n := fmt.Sprintf("%s!%d", prefix, fx.nfresh)
	fx.declare(n, sort)
	return n
}

func (fx *fnExec) assert(t string) {
	if t == "true" {
		return
	}
	fx.asserts = append(fx.asserts, assertion{fx.curBlk, "(assert " + t + ")"})
}

// assume adds an assumption guarded by the current block's reachability.
func (fx *fnExec) assume(t string) {
	if t == "true" {
		return
	}
	fx.assert(implies(fx.reach[fx.ck], t))
}

func (fx *fnExec) define(name, sort, term string) string {
	fx.declare(name, sort)
	fx.assert("(= " + name + " " + term + ")")
	return name
}

func (fx *fnExec) heapGet(st *state, name, sort string) string {
	if t, ok := st.heap[name]; ok {
		return t
	}
	fx.heapSort[name] = sort
	init := name + "!0"
	if !fx.declSeen[init] {
		fx.declare(init, sort)
		if wf := fx.heapWF(name, init, "alloc!0"); wf != "" {
			fx.asserts = append(fx.asserts, assertion{-1, "(assert " + wf + ")"})
		}
	}
	return init
}

// heapWF: every value stored in heap array arrTerm is well-typed (ints in range, references allocated).
func (fx *fnExec) heapWF(name, arrTerm, alloc string) string {
	t := fx.heapElemType[name]
	if t == nil {
		return ""
	}
	switch fx.heapDepth[name] {
	case 1:
		w := fx.refsAllocated("(select "+arrTerm+" r)", t, alloc)
		if w == "true" {
			return ""
		}
		return "(forall ((r Int)) (! " + w + " :pattern ((select " + arrTerm + " r))))"
	case 2:
		w := fx.refsAllocated("(select (select "+arrTerm+" r) i)", t, alloc)
		if w == "true" {
			return ""
		}
		return "(forall ((r Int) (i Int)) (! " + w + " :pattern ((select (select " + arrTerm + " r) i))))"
	case 3:
		kt := fx.heapElemType["MK_"+strings.TrimPrefix(name, "MV_")]
		if kt == nil {
			return ""
		}
		w := fx.refsAllocated("(select (select "+arrTerm+" r) k)", t, alloc)
		if w == "true" {
			return ""
		}
		return "(forall ((r Int) (k " + fx.d.SortOf(kt) + ")) (! " + w + " :pattern ((select (select " + arrTerm + " r) k))))"
	}
	return ""
}

func (fx *fnExec) heapSet(st *state, name, sort, term string) {
	fx.heapSort[name] = sort
	// keep terms small
	n := fx.fresh(name, sort)
	fx.assert("(= " + n + " " + term + ")")
	st.heap[name] = n
}

func (fx *fnExec) ghostGet(st *state, name string) string {
	if t, ok := st.ghost[name]; ok {
		return t
	}
	g := fx.g.cs.Ghosts[name]
	if g == nil {
		fx.fail("unknown ghost %s", name)
	}
	init := "G_" + name + "!0"
	fx.declare(init, ghostSort(g.Sort))
	return init
}

func (fx *fnExec) declareUF(u *UFDecl) {
	if fx.ufSeen[u.Name] {
		return
	}
	fx.ufSeen[u.Name] = true
	var ps []string
	for _, p := range u.Params {
		srt := ghostSort(p)
		if strings.HasPrefix(srt, "X_") {
			fx.d.add("sort:"+srt, "(declare-sort "+srt+" 0)")
			fx.d.add("zero:"+srt, "(declare-const zero_"+srt+" "+srt+")")
		}
		ps = append(ps, srt)
	}
	fx.declLines = append(fx.declLines, fmt.Sprintf("(declare-fun %s (%s) %s)", u.Name, strings.Join(ps, " "), ghostSort(u.Result)))
}

func (fx *fnExec) globalTerm(name string, t types.Type) string {
	n := "g!" + sanitize(shortPkg(name))
	fx.declare(n, fx.d.SortOf(t))
	if fx.globals == nil {
		fx.globals = map[string]string{}
	}
	if _, ok := fx.globals[n]; !ok {
		fx.globals[n] = name
		// error-valued globals (io.EOF ...) are non-nil
		if fx.d.SortOf(t) == "Iface" {
			fx.asserts = append(fx.asserts, assertion{-1, "(assert (not (= " + n + " iface_nil)))"})
		}
		// package-level `var X = regexp.MustCompile("const")`: the value is what MustCompile's assumed
		// contract says about that pattern
		if pat, ok := fx.g.globalRegexps()[name]; ok {
			b := "false"
			if patternAnchored(pat) {
				b = "true"
			}
			fx.asserts = append(fx.asserts, assertion{-1, "(assert (and (> " + n + " 0) (= (rxAnch " + n + ") " + b + ")))"})
			fx.assumptionsUsed["package-level regexp "+name+" taken from its initialiser regexp.MustCompile("+strconv.Quote(pat)+")"] = true
		}
	}
	return n
}

// fieldArr returns the heap array name/sort for a struct field.
func (fx *fnExec) fieldArr(structT types.Type, i int) (string, string) {
	st := structOf(structT)
	name := "H_" + strings.TrimPrefix(fx.d.structNameT(structT), "S_") + "_" + st.Field(i).Name()
	fx.heapElemType[name] = st.Field(i).Type()
	fx.heapDepth[name] = 1
	return name, "(Array Int " + fx.d.SortOf(st.Field(i).Type()) + ")"
}

func (d *Decls) structNameT(t types.Type) string {
	if n := namedOf(t); n != nil {
		if _, ok := n.Underlying().(*types.Struct); ok {
			if d.isRepoType(n) {
				return d.structName(n, nil)
			}
			return "S_X_" + typeKey(n)
		}
	}
	return d.structName(nil, structOf(t))
}

func (fx *fnExec) cellArr(t types.Type) (string, string) {
	s := fx.d.SortOf(t)
	fx.heapElemType["H_cell_"+sanitize(s)] = t
	fx.heapDepth["H_cell_"+sanitize(s)] = 1
	return "H_cell_" + sanitize(s), "(Array Int " + s + ")"
}

func (fx *fnExec) elemsArr(t types.Type) (string, string) {
	s := fx.d.SortOf(t)
	fx.heapElemType["E_"+sanitize(s)] = t
	fx.heapDepth["E_"+sanitize(s)] = 2
	return "E_" + sanitize(s), "(Array Int (Array Int " + s + "))"
}

func (fx *fnExec) mapArrs(mt *types.Map) (dom, val, dsort, vsort string) {
	ks := fx.d.SortOf(mt.Key())
	vs := fx.d.SortOf(mt.Elem())
	k := sanitize(ks) + "_" + sanitize(vs)
	fx.heapElemType["MV_"+k] = mt.Elem()
	fx.heapDepth["MV_"+k] = 3
	fx.heapElemType["MK_"+k] = mt.Key()
	return "MD_" + k, "MV_" + k, "(Array Int (Array " + ks + " Bool))", "(Array Int (Array " + ks + " " + vs + "))"
}

// isOpaqueStruct: struct type from outside the repo (modelled as an uninterpreted value)
func (fx *fnExec) isOpaqueStruct(t types.Type) bool {
	if n := namedOf(t); n != nil {
		if _, ok := n.Underlying().(*types.Struct); ok {
			return !fx.d.isRepoType(n)
		}
	}
	return false
}

// addrOfRef: address denoted by a pointer-typed term pointing to elem type.
func (fx *fnExec) addrOfRef(ref string, elem types.Type) *addr {
	if structOf(elem) != nil && !fx.isOpaqueStruct(elem) {
		return &addr{kind: aStructObj, ref: ref, base: elem, typ: elem}
	}
	return &addr{kind: aCell, ref: ref, base: elem, typ: elem}
}

func (fx *fnExec) addrIdentity(a *addr) string {
	switch a.kind {
	case aCell, aStructObj:
		return a.ref
	case aField:
		return a.ref
	}
	fx.fail("no identity for address kind %d", a.kind)
	return ""
}

func (fx *fnExec) loadStruct(st *state, ref string, t types.Type) string {
	s := structOf(t)
	sn := fx.d.SortOf(t)
	if s.NumFields() == 0 {
		return "mk_" + sn
	}
	var fs []string
	for i := 0; i < s.NumFields(); i++ {
		arr, srt := fx.fieldArr(t, i)
		fs = append(fs, "(select "+fx.heapGet(st, arr, srt)+" "+ref+")")
	}
	return "(mk_" + sn + " " + strings.Join(fs, " ") + ")"
}

func (fx *fnExec) storeStruct(st *state, ref string, t types.Type, v string) {
	s := structOf(t)
	sn := fx.d.SortOf(t)
	for i := 0; i < s.NumFields(); i++ {
		arr, srt := fx.fieldArr(t, i)
		fx.heapSet(st, arr, srt, fmt.Sprintf("(store %s %s (%s_%d %s))", fx.heapGet(st, arr, srt), ref, sn, i, v))
	}
}

// baseLoad loads the value at the base location (before path).
func (fx *fnExec) baseLoad(st *state, a *addr) string {
	switch a.kind {
	case aLocal:
		t, ok := st.cells[a.cell]
		if !ok {
			fx.fail("load of uninitialised cell %s", a.cell.Name())
		}
		return t
	case aField:
		arr, srt := fx.fieldArr(a.st, a.field)
		return "(select " + fx.heapGet(st, arr, srt) + " " + a.ref + ")"
	case aCell:
		arr, srt := fx.cellArr(a.base)
		return "(select " + fx.heapGet(st, arr, srt) + " " + a.ref + ")"
	case aElem:
		arr, srt := fx.elemsArr(a.base)
		return "(select (select " + fx.heapGet(st, arr, srt) + " " + a.arr + ") " + a.idx + ")"
	case aStructObj:
		return fx.loadStruct(st, a.ref, a.base)
	case aGlobal:
		return fx.globalTerm(a.global, a.base)
	}
	fx.fail("bad address kind")
	return ""
}

func (fx *fnExec) baseStore(st *state, a *addr, v string) {
	switch a.kind {
	case aLocal:
		st.cells[a.cell] = v
	case aField:
		arr, srt := fx.fieldArr(a.st, a.field)
		fx.heapSet(st, arr, srt, "(store "+fx.heapGet(st, arr, srt)+" "+a.ref+" "+v+")")
	case aCell:
		arr, srt := fx.cellArr(a.base)
		fx.heapSet(st, arr, srt, "(store "+fx.heapGet(st, arr, srt)+" "+a.ref+" "+v+")")
	case aElem:
		arr, srt := fx.elemsArr(a.base)
		h := fx.heapGet(st, arr, srt)
		fx.heapSet(st, arr, srt, fmt.Sprintf("(store %s %s (store (select %s %s) %s %s))", h, a.arr, h, a.arr, a.idx, v))
	case aStructObj:
		fx.storeStruct(st, a.ref, a.base, v)
	case aGlobal:
		fx.fail("store to global %s not supported", a.global)
	}
}

func (fx *fnExec) loadAddr(st *state, a *addr) string {
	t := fx.baseLoad(st, a)
	for _, p := range a.path {
		sn := fx.d.SortOf(p.st)
		t = fmt.Sprintf("(%s_%d %s)", sn, p.field, t)
	}
	return t
}

func (fx *fnExec) storeAddr(st *state, a *addr, v string) {
	if len(a.path) == 0 {
		fx.baseStore(st, a, v)
		return
	}
	base := fx.baseLoad(st, a)
	fx.baseStore(st, a, fx.updatePath(base, a.path, v))
}

func (fx *fnExec) updatePath(base string, path []pathStep, v string) string {
	if len(path) == 0 {
		return v
	}
	p := path[0]
	st := structOf(p.st)
	sn := fx.d.SortOf(p.st)
	var fs []string
	for i := 0; i < st.NumFields(); i++ {
		sel := fmt.Sprintf("(%s_%d %s)", sn, i, base)
		if i == p.field {
			fs = append(fs, fx.updatePath(sel, path[1:], v))
		} else {
			fs = append(fs, sel)
		}
	}
	return "(mk_" + sn + " " + strings.Join(fs, " ") + ")"
}

// refsAllocated: every reference contained in a value of type t is allocated (<= alloc).
func (fx *fnExec) refsAllocated(term string, t types.Type, alloc string) string {
	switch u := t.Underlying().(type) {
	case *types.Pointer, *types.Map, *types.Chan, *types.Signature:
		return "(<= " + term + " " + alloc + ")"
	case *types.Slice:
		return "(<= (sl_arr " + term + ") " + alloc + ")"
	case *types.Struct:
		if fx.isOpaqueStruct(t) {
			return "true"
		}
		sn := fx.d.SortOf(t)
		var cs []string
		for i := 0; i < u.NumFields(); i++ {
			cs = append(cs, fx.refsAllocated(fmt.Sprintf("(%s_%d %s)", sn, i, term), u.Field(i).Type(), alloc))
		}
		return and(cs...)
	}
	return "true"
}

// wellTyped returns the typing assumption for a term of Go type t.
func (fx *fnExec) wellTyped(term string, t types.Type, alloc string) string {
	switch u := t.Underlying().(type) {
	case *types.Basic:
		if lo, hi, ok := intRange(t); ok && fx.d.SortOf(t) == "Int" {
			return "(and (<= " + lo + " " + term + ") (<= " + term + " " + hi + "))"
		}
	case *types.Pointer, *types.Map, *types.Chan, *types.Signature:
		return "(and (<= 0 " + term + ") (<= " + term + " " + alloc + "))"
	case *types.Slice:
		return fmt.Sprintf("(and (<= 0 (sl_arr %s)) (<= (sl_arr %s) %s) (<= 0 (sl_off %s)) (<= 0 (sl_len %s)) (<= (sl_len %s) (sl_cap %s)) (<= (sl_cap %s) %s) (=> (= (sl_arr %s) 0) (= (sl_cap %s) 0)))", term, term, alloc, term, term, term, term, term, maxLen, term, term)
	case *types.Struct:
		if fx.isOpaqueStruct(t) {
			return "true"
		}
		sn := fx.d.SortOf(t)
		var cs []string
		for i := 0; i < u.NumFields(); i++ {
			cs = append(cs, fx.wellTyped(fmt.Sprintf("(%s_%d %s)", sn, i, term), u.Field(i).Type(), alloc))
		}
		return and(cs...)
	}
	return "true"
}

// ---------------------------------------------------------------- obligations

func (fx *fnExec) addObl(kind, anchor string, props []string, goal string, pos token.Pos, src string) *Obligation {
	name := fx.g.relKey(fx.rootFn()) + ":" + kind + ":" + fx.oblPrefix + anchor
	name = fx.g.pkgShort(fx.fn) + "." + name
	part := oblPart{blk: fx.curBlk, nassert: len(fx.asserts), reach: fx.reach[fx.ck], neg: not(goal), pos: pos}
	if fx.curState != nil {
		part.ghost = map[string]string{}
		for k, v := range fx.curState.ghost {
			part.ghost[k] = v
		}
	}
	if o, ok := fx.oblByName[name]; ok {
		o.Parts = append(o.Parts, part)
		return o
	}
	o := &Obligation{Name: name, Kind: kind, Fn: fx.fn.String(), Props: props, Parts: []oblPart{part}, Src: src, fx: fx}
	if pos.IsValid() {
		p := fx.g.fset.Position(pos)
		o.Pos = fmt.Sprintf("%s:%d", p.Filename, p.Line)
	}
	fx.obls = append(fx.obls, o)
	fx.oblByName[name] = o
	return o
}

func (fx *fnExec) safetyProps() []string { return fx.tags.safety }
func (fx *fnExec) funProps() []string    { return fx.tags.fun }
func (fx *fnExec) allProps() []string {
	m := map[string]bool{}
	var out []string
	for _, p := range append(append([]string{}, fx.tags.fun...), fx.tags.safety...) {
		if !m[p] {
			m[p] = true
			out = append(out, p)
		}
	}
	return out
}

func (fx *fnExec) clauseProps(c *Clause, def []string) []string {
	if len(c.Props) > 0 {
		return c.Props
	}
	return def
}

// ---------------------------------------------------------------- setup

func newFnExec(g *Gen, fn *ssa.Function, ct *Contract) *fnExec {
	fx := &fnExec{g: g, fn: fn, ct: ct, d: NewDecls(g.repoPkgs), declSeen: map[string]bool{}, vals: map[ssa.Value]val{},
		out: map[int]*state{}, reach: map[int]string{}, edge: map[[2]int]string{}, anc: map[int]map[int]bool{},
		backEdge: map[[2]int]bool{}, loops: map[int]*loopInfo{}, heapSort: map[string]string{}, oblByName: map[string]*Obligation{},
		textCount: map[string]int{}, nodeText: map[token.Pos]string{}, callCount: map[string]int{}, ufSeen: map[string]bool{},
		assumptionsUsed: map[string]bool{}, calleesUsed: map[string]bool{}, storeCount: map[string]int{},
		heapElemType: map[string]types.Type{}, heapDepth: map[string]int{},
		textPos: map[string][]token.Pos{}, usedAnchors: map[*Clause]bool{}, deferArgs: map[*ssa.Defer][]val{}, deferFn: map[*ssa.Defer]val{}, spawns: map[string]*spawnInfo{}}
	if fn.Pkg != nil {
		fx.pkg = fn.Pkg.Pkg
	} else if fn.Parent() != nil && fn.Parent().Pkg != nil {
		fx.pkg = fn.Parent().Pkg.Pkg
	}
	fx.tags.fun = ct.Props
	fx.tags.safety = ct.SafetyProps
	if len(fx.tags.safety) == 0 {
		fx.tags.safety = ct.Props
	}
	return fx
}

func (fx *fnExec) collectNodeText() {
	syn := fx.fn.Syntax()
	if syn == nil {
		return
	}
	src := func(n ast.Node) string {
		return fx.g.nodeSrc(n)
	}
	defer func() {
		var ps []token.Pos
		for p := range fx.nodeText {
			ps = append(ps, p)
		}
		sort.Slice(ps, func(i, j int) bool { return ps[i] < ps[j] })
		for _, p := range ps {
			fx.textPos[fx.nodeText[p]] = append(fx.textPos[fx.nodeText[p]], p)
		}
	}()
	ast.Inspect(syn, func(n ast.Node) bool {
		switch x := n.(type) {
		case *ast.FuncLit:
			if n != syn {
				return false
			}
		case *ast.IndexExpr:
			fx.nodeText[x.Lbrack] = src(x)
		case *ast.SliceExpr:
			fx.nodeText[x.Lbrack] = src(x)
		case *ast.SelectorExpr:
			fx.nodeText[x.Sel.Pos()] = src(x)
		case *ast.TypeAssertExpr:
			fx.nodeText[x.Lparen] = src(x)
		case *ast.StarExpr:
			fx.nodeText[x.Star] = src(x)
		case *ast.CallExpr:
			fx.nodeText[x.Lparen] = src(x.Fun)
		case *ast.BinaryExpr:
			fx.nodeText[x.OpPos] = src(x)
		case *ast.IncDecStmt:
			fx.nodeText[x.TokPos] = src(x)
		case *ast.AssignStmt:
			if x.Tok != token.ASSIGN && x.Tok != token.DEFINE {
				fx.nodeText[x.TokPos] = src(x)
			}
		case *ast.UnaryExpr:
			fx.nodeText[x.OpPos] = src(x)
		}
		return true
	})
}

func (fx *fnExec) computeOrder() {
	fn := fx.fn
	// back edges: succ dominates block
	for _, b := range fn.Blocks {
		for _, s := range b.Succs {
			if s.Dominates(b) {
				fx.backEdge[[2]int{b.Index, s.Index}] = true
			}
		}
	}
	// topological order by DFS ignoring back edges
	visited := map[int]bool{}
	var post []*ssa.BasicBlock
	var dfs func(b *ssa.BasicBlock)
	dfs = func(b *ssa.BasicBlock) {
		visited[b.Index] = true
		for _, s := range b.Succs {
			if fx.backEdge[[2]int{b.Index, s.Index}] || visited[s.Index] {
				continue
			}
			dfs(s)
		}
		post = append(post, b)
	}
	dfs(fn.Blocks[0])
	for i := len(post) - 1; i >= 0; i-- {
		fx.order = append(fx.order, post[i])
	}
	// ancestors
	for _, b := range fx.order {
		a := map[int]bool{b.Index: true}
		for _, p := range b.Preds {
			if fx.backEdge[[2]int{p.Index, b.Index}] {
				continue
			}
			for k := range fx.anc[p.Index] {
				a[k] = true
			}
		}
		fx.anc[b.Index] = a
	}
	// loops
	var heads []int
	for e := range fx.backEdge {
		h := e[1]
		li := fx.loops[h]
		if li == nil {
			li = &loopInfo{head: fn.Blocks[h], blocks: map[int]bool{h: true}}
			fx.loops[h] = li
			heads = append(heads, h)
		}
		// natural loop of back edge e[0] -> h
		stack := []int{e[0]}
		for len(stack) > 0 {
			n := stack[len(stack)-1]
			stack = stack[:len(stack)-1]
			if li.blocks[n] {
				continue
			}
			li.blocks[n] = true
			for _, p := range fn.Blocks[n].Preds {
				stack = append(stack, p.Index)
			}
		}
	}
	// ordinal: by source position of the loop statement; match AST loops to heads in index order
	sort.Ints(heads)
	for i, h := range heads {
		li := fx.loops[h]
		li.ordinal = i + 1
		if fx.ct != nil {
			li.spec = fx.ct.Loops[i+1]
		}
		// range loop detection: head named rangeindex.loop
		if fn.Blocks[h].Comment == "rangeindex.loop" {
			// first instr: t = *rangeindexcell; t2 = t + 1; *cell = t2; t3 = t2 < len
			for _, in := range fn.Blocks[h].Instrs {
				if u, ok := in.(*ssa.UnOp); ok && u.Op == token.MUL {
					if al, ok := u.X.(*ssa.Alloc); ok && al.Comment == "rangeindex" {
						li.rangeCell = al
					}
				}
				if b, ok := in.(*ssa.BinOp); ok && b.Op == token.LSS {
					li.rangeLen = b.Y
				}
			}
		}
	}
	if fx.ct != nil {
		for k := range fx.ct.Loops {
			if k < 1 || k > len(heads) {
				// the loop the clauses were written for is gone: they are dropped (reported), the rest
				// of the function is still checked - remaining loops then lack invariants and their
				// obligations are simply harder, which is the sound direction
				fx.warnings = append(fx.warnings, fmt.Sprintf("%s: contract names loop %d but function has %d loops; its clauses are ignored", fx.fn.String(), k, len(heads)))
				delete(fx.ct.Loops, k)
			}
		}
	}
}

// ---------------------------------------------------------------- run

func (fx *fnExec) run() (err error) {
	defer func() {
		if r := recover(); r != nil {
			if e, ok := r.(engineErr); ok {
				err = e
				return
			}
			panic(r)
		}
	}()
	fn := fx.fn
	if len(fn.Blocks) == 0 {
		fx.fail("no body")
	}
	fx.collectNodeText()
	fx.computeOrder()

	// entry state
	st := &state{cells: map[*ssa.Alloc]string{}, heap: map[string]string{}, ghost: map[string]string{}}
	fx.declare("alloc!0", "Int")
	st.alloc = "alloc!0"
	fx.curBlk = 0
	fx.ck = 0
	fx.reach[0] = "true"
	fx.asserts = append(fx.asserts, assertion{-1, "(assert (>= alloc!0 0))"})
	fx.params = map[string]sval{}
	var paramInv [][2]interface{}
	for i, p := range fn.Params {
		n := "p!" + p.Name()
		s := fx.d.SortOf(p.Type())
		fx.declare(n, s)
		fx.vals[p] = val{term: n, typ: p.Type()}
		fx.params[p.Name()] = sval{term: n, typ: p.Type(), sort: s}
		// positional alias (receiver is param0 for methods): lets a clause name "the function's own
		// i-th parameter" independently of what it is called and of captured variables of the same name
		fx.params[fmt.Sprintf("param%d", i)] = sval{term: n, typ: p.Type(), sort: s}
		fx.asserts = append(fx.asserts, assertion{-1, "(assert " + fx.wellTyped(n, p.Type(), "alloc!0") + ")"})
		paramInv = append(paramInv, [2]interface{}{n, p.Type()})
	}
	// parameters renamed since the baseline: the old name stays usable in the contract
	if old, ok := oldSigs[fn.String()]; ok && len(old) == len(fn.Params) {
		for i, p := range fn.Params {
			if old[i] != p.Name() && old[i] != "" && old[i] != "_" {
				if _, clash := fx.params[old[i]]; !clash {
					fx.params[old[i]] = fx.params[p.Name()]
				}
			}
		}
	}
	for _, p := range fn.FreeVars {
		n := "fv!" + p.Name()
		s := fx.d.SortOf(p.Type())
		fx.declare(n, s)
		fx.vals[p] = val{term: n, typ: p.Type()}
		fx.params[p.Name()] = sval{term: n, typ: p.Type(), sort: s}
		fx.asserts = append(fx.asserts, assertion{-1, "(assert " + fx.wellTyped(n, p.Type(), "alloc!0") + ")"})
		fx.asserts = append(fx.asserts, assertion{-1, "(assert (> " + n + " 0))"})
	}
	fx.entry = st.clone()
	for _, pi := range paramInv {
		fx.assumeObjInv(fx.entry, pi[0].(string), pi[1].(types.Type))
	}
	// ghost maps keyed by reference have their default value at references not yet allocated
	for _, gn := range fx.g.cs.GhostOrder {
		g := fx.g.cs.Ghosts[gn]
		if strings.HasPrefix(g.Sort, "[ref]") {
			def := ""
			switch strings.TrimPrefix(g.Sort, "[ref]") {
			case "bool":
				def = "false"
			case "int":
				def = "0"
			}
			if def != "" {
				t := fx.ghostGet(fx.entry, gn)
				fx.asserts = append(fx.asserts, assertion{-1, fmt.Sprintf("(assert (forall ((r Int)) (! (=> (> r alloc!0) (= (select %s r) %s)) :pattern ((select %s r)))))", t, def, t)})
			}
		}
	}
	// global axioms
	for _, ax := range fx.g.cs.Axioms {
		apkg := fx.pkg
		if ax.Pkg != "" {
			apkg = fx.g.typesPkg[ax.Pkg]
		}
		c := &specCtx{fx: fx, cur: fx.entry, names: map[string]sval{}, pkg: apkg}
		v := c.eval(ax.Expr)
		fx.asserts = append(fx.asserts, assertion{-1, "(assert " + v.term + ")"})
	}
	// requires
	pre := &specCtx{fx: fx, cur: fx.entry, old: fx.entry, names: fx.params, pkg: fx.pkg}
	var reqTerms []string
	for _, c := range fx.ct.Requires {
		v := pre.eval(c.Expr)
		reqTerms = append(reqTerms, v.term)
		fx.asserts = append(fx.asserts, assertion{-1, "(assert " + v.term + ")"})
	}
	// hypotheses anchored at entry: side conditions of the property statement on the inputs
	for _, h := range fx.ct.Hypotheses {
		if h.Anchor == "entry" {
			fx.usedAnchors[h] = true
			v := pre.eval(h.Expr)
			fx.asserts = append(fx.asserts, assertion{-1, "(assert " + v.term + ")"})
			fx.assumptionsUsed[hypothesisText(h.Label, fx.g.relKey(fx.fn), h.Src)] = true
		}
	}
	// modifies locations at entry
	for i, m := range fx.ct.Modifies {
		fx.modLocs = append(fx.modLocs, fx.evalLoc(pre, m, fx.ct.ModifiesSrc[i]))
	}
	// objects of types with declared invariants must be immutable after construction:
	// no contract may list their fields in a modifies clause
	for _, oi := range fx.g.cs.ObjInvs {
		if t := fx.g.lookupType(oi.Pkg, oi.Type); t != nil && structOf(t) != nil {
			for i := 0; i < structOf(t).NumFields(); i++ {
				arr, _ := fx.fieldArr(t, i)
				for _, l := range fx.modLocs {
					if l.arr == arr {
						fx.fail("modifies clause lists field %s of type %s, which has object invariants (objects must be immutable after construction)", structOf(t).Field(i).Name(), oi.Type)
					}
				}
			}
		}
	}
	// vacuity obligation: requires satisfiable (must be sat)
	vo := fx.addObl("vacuity", "requires", fx.allProps(), "false", fn.Pos(), "requires && axioms satisfiable")
	vo.Canary = true

	for _, sc := range fx.ct.Schemas {
		why := fx.g.schemaMismatch(fx, sc.Anchor, sc.Target)
		if strings.HasPrefix(why, "cannot resolve") {
			fx.warnings = append(fx.warnings, fmt.Sprintf("%s: schema clause [%s]: %s", fx.fn.String(), sc.Label, why))
			continue
		}
		goal := "true"
		if why != "" {
			goal = "false"
		}
		fx.addObl("schema", sc.Label, fx.clauseProps(sc, fx.funProps()), goal, fn.Pos(), "every JSON key written by "+sc.Anchor+" is read by "+sc.Target+" into a compatible type: "+why)
	}
	if len(fx.ct.Deterministic) > 0 {
		why := fx.g.nondeterminism(fx.fn, map[*ssa.Function]bool{})
		goal := "true"
		if why != "" {
			goal = "false"
		}
		fx.addObl("pure", "deterministic", fx.ct.Deterministic, goal, fn.Pos(), "no map iteration, clock, environment, randomness, goroutine or select in the call graph: "+why)
	}
	// ghostsets anchored at entry: initial values of ghosts for this activation
	for _, gsc := range fx.ct.GhostSets {
		if gsc.Anchor != "entry" {
			continue
		}
		fx.usedAnchors[gsc] = true
		c := &specCtx{fx: fx, cur: st, old: fx.entry, names: fx.params, pkg: fx.pkg}
		v := c.eval(gsc.Expr)
		g := fx.g.cs.Ghosts[gsc.Target]
		if g == nil {
			fx.fail("ghostset of unknown ghost %s", gsc.Target)
		}
		if v.sort == "nil" {
			switch ghostSort(g.Sort) {
			case "Iface":
				v.term = "iface_nil"
			case "Int":
				v.term = "0"
			}
		}
		n := fx.fresh("G_"+gsc.Target, ghostSort(g.Sort))
		fx.asserts = append(fx.asserts, assertion{-1, "(assert (= " + n + " " + v.term + "))"})
		st.ghost[gsc.Target] = n
	}
	fx.out[-1] = st
	for _, b := range fx.order {
		fx.execBlock(b)
	}
	fx.finishReturns()
	return nil
}

func (fx *fnExec) mergeStates(b *ssa.BasicBlock) *state {
	var ins []inc
	for _, p := range b.Preds {
		k := [2]int{fx.kb + p.Index, fx.kb + b.Index}
		if fx.kb == 0 && fx.backEdge[k] {
			continue
		}
		ps, ok := fx.out[fx.kb+p.Index]
		if !ok {
			continue // unreachable predecessor
		}
		ins = append(ins, inc{fx.edge[k], ps})
	}
	if len(ins) == 0 {
		return nil
	}
	var conds []string
	for _, i := range ins {
		conds = append(conds, i.cond)
	}
	r := fmt.Sprintf("reach!b%d", fx.kb+b.Index)
	fx.define(r, "Bool", or(conds...))
	fx.reach[fx.kb+b.Index] = r
	return fx.mergeN(ins)
}

type inc struct {
	cond string
	st   *state
}

func (fx *fnExec) mergeN(ins []inc) *state {
	if len(ins) == 1 {
		return ins[0].st.clone()
	}
	merged := ins[0].st.clone()
	mergeVal := func(name, sort string, get func(s *state) (string, bool)) (string, bool) {
		var vs []string
		same := true
		for _, i := range ins {
			v, ok := get(i.st)
			if !ok {
				return "", false
			}
			vs = append(vs, v)
			if v != vs[0] {
				same = false
			}
		}
		if same {
			return vs[0], true
		}
		t := vs[len(vs)-1]
		for k := len(vs) - 2; k >= 0; k-- {
			t = "(ite " + ins[k].cond + " " + vs[k] + " " + t + ")"
		}
		n := fx.fresh("m!"+name, sort)
		fx.assert("(= " + n + " " + t + ")")
		return n, true
	}
	// cells
	cellSet := map[*ssa.Alloc]bool{}
	for _, i := range ins {
		for c := range i.st.cells {
			cellSet[c] = true
		}
	}
	for c := range cellSet {
		v, ok := mergeVal(c.Name(), fx.d.SortOf(deref(c.Type())), func(s *state) (string, bool) { v, ok := s.cells[c]; return v, ok })
		if ok {
			merged.cells[c] = v
		} else {
			delete(merged.cells, c)
		}
	}
	heapSet := map[string]bool{}
	for _, i := range ins {
		for h := range i.st.heap {
			heapSet[h] = true
		}
	}
	var hs []string
	for h := range heapSet {
		hs = append(hs, h)
	}
	sort.Strings(hs)
	for _, h := range hs {
		srt := fx.heapSort[h]
		v, _ := mergeVal(h, srt, func(s *state) (string, bool) { return fx.heapGet(s, h, srt), true })
		merged.heap[h] = v
	}
	ghostSet := map[string]bool{}
	for _, i := range ins {
		for h := range i.st.ghost {
			ghostSet[h] = true
		}
	}
	var gs []string
	for h := range ghostSet {
		gs = append(gs, h)
	}
	sort.Strings(gs)
	for _, h := range gs {
		v, _ := mergeVal("G_"+h, ghostSort(fx.g.cs.Ghosts[h].Sort), func(s *state) (string, bool) { return fx.ghostGet(s, h), true })
		merged.ghost[h] = v
	}
	v, _ := mergeVal("alloc", "Int", func(s *state) (string, bool) { return s.alloc, true })
	merged.alloc = v
	return merged
}

func deref(t types.Type) types.Type {
	return t.Underlying().(*types.Pointer).Elem()
}

func (fx *fnExec) execBlock(b *ssa.BasicBlock) {
	if fx.kb == 0 {
		fx.curBlk = b.Index
	}
	fx.ck = fx.kb + b.Index
	var st *state
	if b.Index == 0 {
		st = fx.out[fx.kb-1].clone()
	} else {
		st = fx.mergeStates(b)
		if st == nil {
			return
		}
	}
	if li, ok := fx.loops[b.Index]; ok && fx.kb == 0 {
		st = fx.loopHead(li, st)
	}
	for _, in := range b.Instrs {
		fx.execInstr(st, in)
	}
}

// ---------------------------------------------------------------- loops

func (fx *fnExec) localLookup(st *state, at *ssa.BasicBlock) func(string) (sval, bool) {
	return func(name string) (sval, bool) {
		var best *ssa.Alloc
		for _, l := range fx.fn.Locals {
			if l.Comment != name {
				continue
			}
			if _, ok := st.cells[l]; !ok {
				continue
			}
			if l.Block() != nil && at != nil && !(l.Block() == at || l.Block().Dominates(at)) {
				continue
			}
			if best == nil || best.Block().Dominates(l.Block()) {
				best = l
			}
		}
		if best != nil {
			t := deref(best.Type())
			return sval{term: st.cells[best], typ: t, sort: fx.d.SortOf(t)}, true
		}
		// heap-allocated named locals (escaping): find the Alloc value
		wantAddr := false
		if strings.HasPrefix(name, "addr_") {
			wantAddr = true
			name = strings.TrimPrefix(name, "addr_")
		}
		for _, blk := range fx.fn.Blocks {
			for _, in := range blk.Instrs {
				if al, ok := in.(*ssa.Alloc); ok && al.Heap && al.Comment == name {
					if v, ok := fx.vals[al]; ok && wantAddr && (at == nil || blk == at || blk.Dominates(at)) {
						return sval{term: v.term, typ: al.Type(), sort: "Int"}, true
					}
					if v, ok := fx.vals[al]; ok && (at == nil || blk == at || blk.Dominates(at)) {
						t := deref(al.Type())
						a := fx.addrOfRef(v.term, t)
						return sval{term: fx.loadAddr(st, a), typ: t, sort: fx.d.SortOf(t)}, true
					}
				}
			}
		}
		return sval{}, false
	}
}

func (fx *fnExec) loopModified(li *loopInfo) (cells map[*ssa.Alloc]bool, locs []loc, ghosts map[string]bool, allocs bool) {
	cells = map[*ssa.Alloc]bool{}
	ghosts = map[string]bool{}
	visited := map[*ssa.Function]bool{fx.fn: true}
	var scan func(in ssa.Instruction, top bool)
	scan = func(in ssa.Instruction, top bool) {
		if an := fx.anchorName(in); top && an != "" {
			for _, gsc := range fx.ct.GhostSets {
				if gsc.Anchor == an {
					ghosts[gsc.Target] = true
				}
			}
		}
		switch x := in.(type) {
		case *ssa.Alloc:
			if !x.Heap {
				cells[x] = true
			} else {
				allocs = true
			}
		case *ssa.Store:
			fx.staticStoreTarget(x.Addr, cells, &locs)
			if fa, ok := x.Addr.(*ssa.FieldAddr); ok {
				stT := deref(fa.X.Type())
				if n := namedOf(stT); n != nil && n.Obj().Pkg() != nil {
					for _, fd := range fx.g.cs.FieldDelta {
						if fd.Type == n.Obj().Name() && fd.Pkg == n.Obj().Pkg().Path() && fd.Field == structOf(stT).Field(fa.Field).Name() {
							ghosts[fd.Ghost] = true
						}
					}
				}
			}
		case *ssa.MapUpdate:
			mt := x.Map.Type().Underlying().(*types.Map)
			md, mv, ds, vs := fx.mapArrs(mt)
			locs = append(locs, loc{arr: md, sort: ds}, loc{arr: mv, sort: vs})
		case *ssa.MakeMap, *ssa.MakeSlice, *ssa.MakeChan, *ssa.MakeClosure:
			allocs = true
		case *ssa.Go, *ssa.Defer:
			allocs = true
		case ssa.CallInstruction:
			allocs = true
			if c, ok := in.(*ssa.Call); ok {
				if bi, ok := c.Call.Value.(*ssa.Builtin); ok && bi.Name() == "append" {
					et := c.Type().Underlying().(*types.Slice).Elem()
					arr, srt := fx.elemsArr(et)
					locs = append(locs, loc{arr: arr, sort: srt})
					return
				}
			}
			ct, info := fx.g.contractForCall(fx, x.Common())
			if ct == nil {
				// a contract-less callee that is executed in place: its effects are the loop's effects
				if callee := x.Common().StaticCallee(); callee != nil && callee.Blocks != nil && !visited[callee] {
					visited[callee] = true
					for _, b := range callee.Blocks {
						for _, cin := range b.Instrs {
							scan(cin, false)
						}
					}
				}
			}
			if ct != nil && info.key == "::(*sync.Mutex).Lock" {
				if fa, ok := x.Common().Args[0].(*ssa.FieldAddr); ok {
					stT := deref(fa.X.Type())
					if n := namedOf(stT); n != nil && n.Obj().Pkg() != nil {
						for _, fp := range fx.g.cs.FieldProto {
							if fp.Rule == "locked" && fp.Type == n.Obj().Name() && fp.Pkg == n.Obj().Pkg().Path() {
								arr, srt := fx.fieldArr(stT, fieldIndex(structOf(stT), fp.Field))
								locs = append(locs, loc{arr: arr, sort: srt})
							}
						}
					}
				}
			}
			if ct != nil && len(ct.Locks) > 0 {
				for _, fp := range fx.g.cs.FieldProto {
					if fp.Rule == "locked" {
						if t := fx.g.lookupType(fp.Pkg, fp.Type); t != nil {
							arr, srt := fx.fieldArr(t, fieldIndex(structOf(t), fp.Field))
							locs = append(locs, loc{arr: arr, sort: srt})
						}
					}
				}
			}
			if ct != nil {
				for _, m := range ct.Modifies {
					ls, gh, _ := fx.g.modStatic(fx, ct, info, x.Common(), m)
					if gh != "" {
						ghosts[gh] = true
					}
					for _, l := range ls {
						if l.cellLocal != nil {
							cells[l.cellLocal] = true
						} else {
							locs = append(locs, l)
						}
					}
				}
			}
		}
	}
	for bi := range li.blocks {
		for _, in := range fx.fn.Blocks[bi].Instrs {
			scan(in, true)
		}
	}
	return
}

// staticStoreTarget: which state component a store through v may change (syntactic).
func (fx *fnExec) staticStoreTarget(v ssa.Value, cells map[*ssa.Alloc]bool, locs *[]loc) {
	switch x := v.(type) {
	case *ssa.Alloc:
		if !x.Heap {
			cells[x] = true
			return
		}
		t := deref(x.Type())
		if structOf(t) != nil && !fx.isOpaqueStruct(t) {
			for i := 0; i < structOf(t).NumFields(); i++ {
				arr, srt := fx.fieldArr(t, i)
				*locs = append(*locs, loc{arr: arr, sort: srt})
			}
			return
		}
		arr, srt := fx.cellArr(t)
		*locs = append(*locs, loc{arr: arr, sort: srt})
	case *ssa.FieldAddr:
		// local struct cell?
		if root, ok := rootAlloc(x.X); ok && !root.Heap {
			cells[root] = true
			return
		}
		if isAddrOfElem(x.X) {
			fx.staticStoreTarget(x.X, cells, locs)
			return
		}
		st := deref(x.X.Type())
		arr, srt := fx.fieldArr(st, x.Field)
		*locs = append(*locs, loc{arr: arr, sort: srt})
	case *ssa.IndexAddr:
		var et types.Type
		switch u := x.X.Type().Underlying().(type) {
		case *types.Slice:
			et = u.Elem()
		case *types.Pointer:
			et = u.Elem().Underlying().(*types.Array).Elem()
		}
		arr, srt := fx.elemsArr(et)
		*locs = append(*locs, loc{arr: arr, sort: srt})
	default:
		t := deref(v.Type())
		if structOf(t) != nil && !fx.isOpaqueStruct(t) {
			for i := 0; i < structOf(t).NumFields(); i++ {
				arr, srt := fx.fieldArr(t, i)
				*locs = append(*locs, loc{arr: arr, sort: srt})
			}
			return
		}
		arr, srt := fx.cellArr(t)
		*locs = append(*locs, loc{arr: arr, sort: srt})
	}
}

func isAddrOfElem(v ssa.Value) bool {
	switch x := v.(type) {
	case *ssa.IndexAddr:
		return true
	case *ssa.FieldAddr:
		return isAddrOfElem(x.X)
	}
	return false
}

func rootAlloc(v ssa.Value) (*ssa.Alloc, bool) {
	switch x := v.(type) {
	case *ssa.Alloc:
		return x, true
	case *ssa.FieldAddr:
		return rootAlloc(x.X)
	}
	return nil, false
}

func (fx *fnExec) loopHead(li *loopInfo, st *state) *state {
	b := li.head
	li.entry = st.clone()
	// default invariants for range loops
	var invs []*Clause
	if li.spec != nil {
		invs = li.spec.Invariants
	}
	mk := func(cur *state) *specCtx {
		return &specCtx{fx: fx, cur: cur, old: fx.entry, entry: li.entry, names: fx.params, locals: fx.localLookup(cur, b), pkg: fx.pkg}
	}
	// entry obligations
	c0 := mk(st)
	for _, inv := range invs {
		v, ok := fx.tryEval(c0, inv.Expr, fmt.Sprintf("loop %d invariant [%s]", li.ordinal, inv.Label))
		if !ok {
			continue
		}
		fx.addObl("loop", fmt.Sprintf("%d:inv[%s]:entry", li.ordinal, inv.Label), fx.clauseProps(inv, fx.allProps()), v.term, b.Instrs[0].Pos(), inv.Src)
	}
	var rangeInv func(cur *state) string
	if li.rangeCell != nil && li.rangeLen != nil {
		n := fx.operand(st, li.rangeLen).term
		rangeInv = func(cur *state) string {
			ri := cur.cells[li.rangeCell]
			return "(and (<= (- 1) " + ri + ") (<= " + ri + " (- " + n + " 1)))"
		}
		if _, ok := st.cells[li.rangeCell]; ok {
			fx.addObl("loop", fmt.Sprintf("%d:inv[range]:entry", li.ordinal), fx.safetyProps(), or("(< "+n+" 0)", rangeInv(st)), b.Instrs[0].Pos(), "range index in bounds")
		}
	}
	// havoc
	cells, locs, ghosts, allocs := fx.loopModified(li)
	h := st.clone()
	if allocs {
		na := fx.fresh("h!alloc", "Int")
		fx.assume("(>= " + na + " " + st.alloc + ")")
		h.alloc = na
	}
	for c := range cells {
		if _, ok := h.cells[c]; ok {
			h.cells[c] = fx.fresh("h!"+c.Name(), fx.d.SortOf(deref(c.Type())))
			fx.assume(fx.wellTyped(h.cells[c], deref(c.Type()), h.alloc))
		}
	}
	seen := map[string]bool{}
	for _, l := range locs {
		if l.arr == "" || seen[l.arr] {
			continue
		}
		seen[l.arr] = true
		old := fx.heapGet(st, l.arr, l.sort)
		nw := fx.fresh("h!"+l.arr, l.sort)
		h.heap[l.arr] = nw
		fx.heapSort[l.arr] = l.sort
		if wf := fx.heapWF(l.arr, nw, h.alloc); wf != "" {
			fx.assume(wf)
		}
		// frame: objects allocated before the loop whose refs are not stable store targets ... conservative: none
		_ = old
	}
	for gname := range ghosts {
		if g, ok := fx.g.cs.Ghosts[gname]; ok {
			h.ghost[gname] = fx.fresh("h!G_"+gname, ghostSort(g.Sort))
		}
	}
	// frame for havocked heap arrays: locations not reachable as store targets keep their values.
	fx.loopFrame(li, st, h, locs)
	// assume invariants
	c1 := mk(h)
	for _, inv := range invs {
		v, ok := fx.tryEval(c1, inv.Expr, fmt.Sprintf("loop %d invariant [%s]", li.ordinal, inv.Label))
		if !ok {
			continue
		}
		fx.assume(v.term)
	}
	if rangeInv != nil {
		if _, ok := h.cells[li.rangeCell]; ok {
			fx.assume(rangeInv(h))
		}
	}
	li.headState = h.clone()
	if li.spec != nil && li.spec.Decreases != nil && li.spec.Decreases.Src != "*" {
		v := c1.eval(li.spec.Decreases.Expr)
		li.variant0 = fx.define(fx.fresh("variant", "Int"), "Int", v.term)
		li.hasV = true
	}
	return h
}

// loopFrame: for heap arrays havocked at a loop head, assert that entries whose index is not a
// possible store target are unchanged. Store targets considered: refs that are stable terms
// (defined outside the loop) or objects allocated inside the loop (ref > alloc at loop entry).
func (fx *fnExec) loopFrame(li *loopInfo, before, after *state, locs []loc) {
	// collect per array the set of stable target terms; nil entry => unknown target (no frame)
	targets := map[string][]string{}
	unknown := map[string]bool{}
	note := func(arr string, ref ssa.Value) {
		if ref == nil {
			unknown[arr] = true
			return
		}
		// stable if defined outside the loop (instruction not in loop blocks) or a parameter
		switch x := ref.(type) {
		case *ssa.Parameter, *ssa.FreeVar:
			targets[arr] = append(targets[arr], fx.vals[x].term)
			return
		case ssa.Instruction:
			if !li.blocks[x.Block().Index] {
				if v, ok := fx.vals[ref]; ok && v.term != "" {
					targets[arr] = append(targets[arr], v.term)
					return
				}
			}
			// load of a cell that is not modified in the loop
			if u, ok := ref.(*ssa.UnOp); ok && u.Op == token.MUL {
				if al, ok := u.X.(*ssa.Alloc); ok && !al.Heap {
					if !fx.cellStoredIn(li, al) {
						if t, ok := before.cells[al]; ok {
							targets[arr] = append(targets[arr], t)
							return
						}
					}
				}
			}
		}
		unknown[arr] = true
	}
	for bi := range li.blocks {
		for _, in := range fx.fn.Blocks[bi].Instrs {
			switch x := in.(type) {
			case *ssa.Store:
				switch a := x.Addr.(type) {
				case *ssa.FieldAddr:
					if root, ok := rootAlloc(a.X); ok && !root.Heap {
						continue
					}
					if isAddrOfElem(a.X) {
						et := elemTypeOfAddr(a.X)
						arr, _ := fx.elemsArr(et)
						unknown[arr] = true
						continue
					}
					arr, _ := fx.fieldArr(deref(a.X.Type()), a.Field)
					note(arr, a.X)
				case *ssa.IndexAddr:
					et := elemTypeOfAddr(a)
					arr, _ := fx.elemsArr(et)
					unknown[arr] = true
				case *ssa.Alloc:
					if a.Heap {
						// fresh object in loop: ref > alloc-before; handled by "fresh" rule
						t := deref(a.Type())
						if structOf(t) != nil && !fx.isOpaqueStruct(t) {
							continue
						}
						continue
					}
				default:
					t := deref(x.Addr.Type())
					if structOf(t) != nil && !fx.isOpaqueStruct(t) {
						for i := 0; i < structOf(t).NumFields(); i++ {
							arr, _ := fx.fieldArr(t, i)
							note(arr, x.Addr)
						}
					} else {
						arr, _ := fx.cellArr(t)
						note(arr, x.Addr)
					}
				}
			case *ssa.MapUpdate:
				mt := x.Map.Type().Underlying().(*types.Map)
				md, mv, _, _ := fx.mapArrs(mt)
				note(md, x.Map)
				note(mv, x.Map)
			case *ssa.Go, *ssa.Defer:
			case ssa.CallInstruction:
				ct, info := fx.g.contractForCall(fx, x.Common())
				if ct != nil {
					for _, m := range ct.Modifies {
						ls, _, ref := fx.g.modStatic(fx, ct, info, x.Common(), m)
						for _, l := range ls {
							if l.arr != "" {
								note(l.arr, ref)
							}
						}
					}
				}
			}
		}
	}
	seen := map[string]bool{}
	for _, l := range locs {
		if l.arr == "" || seen[l.arr] {
			continue
		}
		seen[l.arr] = true
		if strings.HasPrefix(l.arr, "E_") {
			// element arrays: indices (array refs) allocated before the loop and not stored => unknown unless no IndexAddr stores
			if unknown[l.arr] {
				continue
			}
			// only appends: old arrays unchanged
			fx.assume(fmt.Sprintf("(forall ((r Int)) (! (=> (<= r %s) (= (select %s r) (select %s r))) :pattern ((select %s r))))", before.alloc, after.heap[l.arr], fx.heapGet(before, l.arr, l.sort), after.heap[l.arr]))
			continue
		}
		if unknown[l.arr] {
			continue
		}
		var ne []string
		for _, t := range uniq(targets[l.arr]) {
			ne = append(ne, "(not (= r "+t+"))")
		}
		cond := and(append([]string{"(<= r " + before.alloc + ")"}, ne...)...)
		fx.assume(fmt.Sprintf("(forall ((r Int)) (! (=> %s (= (select %s r) (select %s r))) :pattern ((select %s r))))", cond, after.heap[l.arr], fx.heapGet(before, l.arr, l.sort), after.heap[l.arr]))
	}
}

func elemTypeOfAddr(v ssa.Value) types.Type {
	switch x := v.(type) {
	case *ssa.IndexAddr:
		switch u := x.X.Type().Underlying().(type) {
		case *types.Slice:
			return u.Elem()
		case *types.Pointer:
			return u.Elem().Underlying().(*types.Array).Elem()
		}
	case *ssa.FieldAddr:
		return elemTypeOfAddr(x.X)
	}
	return nil
}

func uniq(xs []string) []string {
	m := map[string]bool{}
	var out []string
	for _, x := range xs {
		if !m[x] {
			m[x] = true
			out = append(out, x)
		}
	}
	return out
}

func (fx *fnExec) cellStoredIn(li *loopInfo, al *ssa.Alloc) bool {
	for bi := range li.blocks {
		for _, in := range fx.fn.Blocks[bi].Instrs {
			if s, ok := in.(*ssa.Store); ok {
				if r, ok := rootAlloc(s.Addr); ok && r == al {
					return true
				}
			}
			if a, ok := in.(*ssa.Alloc); ok && a == al {
				return true
			}
		}
	}
	return false
}

func (fx *fnExec) backEdgeObls(li *loopInfo, st *state, cond string, pos token.Pos) {
	b := li.head
	saveReach := fx.reach[fx.ck]
	// reach for obligations on this edge = edge condition
	fx.reach[fx.ck] = cond
	defer func() { fx.reach[fx.ck] = saveReach }()
	c := &specCtx{fx: fx, cur: st, old: fx.entry, entry: li.entry, names: fx.params, locals: fx.localLookup(st, b), pkg: fx.pkg}
	if li.spec != nil {
		for _, inv := range li.spec.Invariants {
			v, ok := fx.tryEval(c, inv.Expr, fmt.Sprintf("loop %d invariant [%s]", li.ordinal, inv.Label))
			if !ok {
				continue
			}
			fx.addObl("loop", fmt.Sprintf("%d:inv[%s]:preserved", li.ordinal, inv.Label), fx.clauseProps(inv, fx.allProps()), v.term, pos, inv.Src)
		}
	}
	if li.rangeCell != nil {
		return // range loops terminate by construction
	}
	if li.spec != nil && li.spec.Decreases != nil && li.spec.Decreases.Src == "*" {
		fx.assumptionsUsed[fmt.Sprintf("loop %d of %s is declared non-terminating by design (serves until shutdown / peer end); termination not claimed", li.ordinal, fx.g.relKey(fx.fn))] = true
		return
	}
	if li.hasV {
		v := c.eval(li.spec.Decreases.Expr)
		goal := "(and (< " + v.term + " " + li.variant0 + ") (>= " + li.variant0 + " 0))"
		fx.addObl("loop", fmt.Sprintf("%d:decreases", li.ordinal), fx.safetyProps(), goal, pos, li.spec.Decreases.Src)
	} else {
		// no variant given: termination obligation that cannot be discharged
		fx.addObl("loop", fmt.Sprintf("%d:decreases", li.ordinal), fx.safetyProps(), "false", pos, "missing decreases clause")
	}
}

// ---------------------------------------------------------------- operands

func (fx *fnExec) operand(st *state, v ssa.Value) val {
	switch x := v.(type) {
	case *ssa.Const:
		return fx.constant(x)
	case *ssa.Global:
		return val{addr: &addr{kind: aGlobal, global: x.Pkg.Pkg.Path() + "." + x.Name(), base: deref(x.Type()), typ: deref(x.Type())}, typ: x.Type()}
	case *ssa.Function:
		return val{term: "0", typ: x.Type(), closure: x}
	case *ssa.Builtin:
		fx.fail("builtin as value")
	}
	if r, ok := fx.vals[v]; ok {
		return r
	}
	fx.fail("value %s (%T) used before definition", v.Name(), v)
	return val{}
}

func (fx *fnExec) constant(c *ssa.Const) val {
	t := c.Type()
	if c.Value == nil {
		// zero value / nil
		return val{term: fx.d.Zero(t), typ: t, isNilC: true}
	}
	switch c.Value.Kind() {
	case constant.Int, constant.Bool, constant.String:
		sv := fx.constVal(c.Value, t)
		return val{term: sv.term, typ: t}
	case constant.Float:
		f, _ := constant.Float64Val(c.Value)
		return val{term: fmt.Sprintf("%f", f), typ: t}
	}
	fx.fail("unsupported constant %v", c)
	return val{}
}

func (fx *fnExec) termOf(st *state, v ssa.Value) string {
	r := fx.operand(st, v)
	if r.addr != nil {
		fx.fail("address value %s used as term", v.Name())
	}
	return r.term
}

func (fx *fnExec) rootFn() *ssa.Function {
	if len(fx.inlineStack) > 0 {
		return fx.inlineStack[0]
	}
	return fx.fn
}

// canInline: loop-free in-repo function that can be executed in place of a contract.
func (fx *fnExec) canInline(f *ssa.Function) bool {
	if f == nil || len(f.Blocks) == 0 || len(fx.inlineStack) >= 4 || f == fx.rootFn() {
		return false
	}
	for _, s := range fx.inlineStack {
		if s == f {
			return false
		}
	}
	if f == fx.fn {
		return false
	}
	for _, b := range f.Blocks {
		for _, s := range b.Succs {
			if s.Dominates(b) {
				return false
			}
		}
	}
	// a helper the engine cannot execute (an instruction outside the supported subset) must not abort
	// its caller: it is then called as an opaque function instead (and swept as far as possible)
	return fx.g.dryRunOK(f)
}

// inlineCall executes the body of a loop-free callee in place (used when the callee has no usable
// contract). Obligations raised inside are attributed to the calling function with an "inl(f)/" prefix.
func (fx *fnExec) inlineCall(st *state, in ssa.Instruction, f *ssa.Function, args []val, sink *val) val {
	fx.inlineCount++
	base := fx.inlineCount * 1000000
	saveKb, saveCk, saveFn, saveInl, savePrefix := fx.kb, fx.ck, fx.fn, fx.inl, fx.oblPrefix
	saveDefers := st.defers
	entryReach := fx.reach[fx.ck]
	if len(fx.inlineStack) == 0 {
		fx.inlineStack = append(fx.inlineStack, fx.fn)
	}
	fx.inlineStack = append(fx.inlineStack, f)
	n := 0
	for _, p := range f.Params {
		if n < len(args) {
			fx.vals[p] = args[n]
		}
		n++
	}
	for _, p := range f.FreeVars {
		if n < len(args) {
			fx.vals[p] = args[n]
		}
		n++
	}
	ctx := &inlineCtx{sink: sink}
	fx.kb, fx.inl, fx.fn = base, ctx, f
	fx.oblPrefix = savePrefix + "inl(" + f.Name() + ")/"
	fx.reach[base] = entryReach
	st.defers = nil
	fx.out[base-1] = st
	// topological order (no back edges)
	visited := map[int]bool{}
	var post []*ssa.BasicBlock
	var dfs func(b *ssa.BasicBlock)
	dfs = func(b *ssa.BasicBlock) {
		visited[b.Index] = true
		for _, s := range b.Succs {
			if !visited[s.Index] {
				dfs(s)
			}
		}
		post = append(post, b)
	}
	dfs(f.Blocks[0])
	for i := len(post) - 1; i >= 0; i-- {
		fx.execBlock(post[i])
	}
	fx.kb, fx.ck, fx.fn, fx.inl, fx.oblPrefix = saveKb, saveCk, saveFn, saveInl, savePrefix
	fx.inlineStack = fx.inlineStack[:len(fx.inlineStack)-1]
	if len(fx.inlineStack) == 1 {
		fx.inlineStack = nil
	}
	fx.assumptionsUsed["function without a contract executed in place (inlined): "+f.String()] = true
	if len(ctx.rets) == 0 {
		// callee never returns normally on any path
		st.defers = saveDefers
		return val{term: "unit"}
	}
	var ins []inc
	for _, r := range ctx.rets {
		ins = append(ins, inc{r.cond, r.st})
	}
	merged := fx.mergeN(ins)
	merged.defers = saveDefers
	*st = *merged
	// results
	nres := len(ctx.rets[0].results)
	mergeRes := func(i int) val {
		t := ctx.rets[len(ctx.rets)-1].results[i]
		if t.addr != nil {
			return t
		}
		term := t.term
		for k := len(ctx.rets) - 2; k >= 0; k-- {
			term = "(ite " + ctx.rets[k].cond + " " + ctx.rets[k].results[i].term + " " + term + ")"
		}
		if len(ctx.rets) > 1 && t.typ != nil {
			term = fx.define(fx.fresh("inlres", fx.d.SortOf(t.typ)), fx.d.SortOf(t.typ), term)
		}
		return val{term: term, typ: t.typ}
	}
	switch nres {
	case 0:
		return val{term: "unit"}
	case 1:
		return mergeRes(0)
	}
	var res val
	for i := 0; i < nres; i++ {
		res.tuple = append(res.tuple, mergeRes(i))
	}
	res.typ = f.Signature.Results()
	return res
}

// tryEval evaluates a contract clause; a clause that does not resolve against the current source
// (unknown local, changed capture list, ...) is reported and skipped instead of aborting the function:
// the function is then not counted as verified, but its other obligations are still checked.
func (fx *fnExec) tryEval(c *specCtx, e Expr, what string) (v sval, ok bool) {
	defer func() {
		if r := recover(); r != nil {
			if ee, isE := r.(engineErr); isE && strings.HasPrefix(string(ee), "spec:") {
				msg := fmt.Sprintf("%s: clause %s does not resolve: %s", fx.rootFn().String(), what, string(ee))
				dup := false
				for _, w := range fx.warnings {
					if w == msg {
						dup = true
					}
				}
				if !dup {
					fx.warnings = append(fx.warnings, msg)
				}
				ok = false
				return
			}
			panic(r)
		}
	}()
	return c.eval(e), true
}
