package main

import (
	"bufio"
	"fmt"
	"os"
	"regexp"
	"strconv"
	"strings"
)

type Clause struct {
	Kind   string // requires ensures invariant decreases assert ghostset
	Label  string
	Props  []string // nil => inherit function's
	Expr   Expr
	Src    string
	Loop   int
	Anchor string // e.g. call(Write)#1, go#1, store(running)#1
	Target string // ghostset
	File   string
	Line   int
}

type LoopSpec struct {
	Invariants []*Clause
	Decreases  *Clause
}

type Contract struct {
	Key         string // relative key, or full for speclib
	Pkg         string // package path ("" for speclib)
	Params      []string
	Props       []string
	SafetyProps []string
	Requires    []*Clause
	Ensures     []*Clause
	Modifies    []Expr
	ModifiesSrc []string
	Decreases   *Clause
	Loops       map[int]*LoopSpec
	Asserts     []*Clause
	GhostSets   []*Clause
	Joins       []*Clause
	Hypotheses  []*Clause
	Locks       []Expr // objects whose mutex this function may acquire (lock-protected fields are havocked for callers)
	Schemas     []*Clause // Anchor: encoder side, Target: decoder side
	Refines     []string
	Trusted     bool
	Opaque      bool // results are fresh unknowns; no other effect
	Allocates   bool
	File        string
	Line        int
	Role        string
	IfaceDecl   bool
	HavocArgs   bool
	Deterministic []string // property tags: the function's result is a function of its arguments
}

type Pred struct {
	Name   string
	Params []string
	Body   Expr
}

type GhostDecl struct {
	Name string
	Sort string // int bool string iface ref [ref]int [ref]bool [ref]ref ...
}

type UFDecl struct {
	Name   string
	Params []string // sort names: int bool string ref iface slice
	Result string
}

type AxiomDecl struct {
	Label string
	Expr  Expr
	Src   string
	File  string
	Pkg   string
}

type ObjInv struct {
	Type  string // relative type name, e.g. Type
	Pkg   string
	Expr  Expr
	Label string
	Src   string
	Props []string
}

type FieldRange struct {
	Pkg, Type, Field string
	Lo, Hi           string
}

type ContractSet struct {
	Funcs       map[string]*Contract // key: pkg + "::" + relkey ; speclib: "::" + fullkey
	Preds       map[string]*Pred
	Ghosts      map[string]*GhostDecl
	GhostOrder  []string
	UFs         map[string]*UFDecl
	UFOrder     []string
	Axioms      []*AxiomDecl
	ObjInvs     []*ObjInv
	FieldRanges []*FieldRange
	Assumptions []string // free-text assumptions declared in files ("assumption ...")
	FieldProto  []*FieldProto
	FieldDelta  []*FieldDelta
}

// FieldDelta: `fielddelta Type.field ghost` - the [ref]int ghost accumulates, per object, the net change
// this thread makes to an integer field (new value minus old value at every store, wherever the store
// sits: in the function itself or in an inlined helper).
type FieldDelta struct {
	Pkg, Type, Field, Ghost string
}

// FieldProto: lock discipline declaration for C16
type FieldProto struct {
	Pkg, Type, Field string
	Rule             string // locked | server | init-or-registrar | free
	Props            []string
}

func NewContractSet() *ContractSet {
	return &ContractSet{Funcs: map[string]*Contract{}, Preds: map[string]*Pred{}, Ghosts: map[string]*GhostDecl{}, UFs: map[string]*UFDecl{}}
}

var reLabel = regexp.MustCompile(`^\[([^\]]*)\]\s*`)
var reFuncLine = regexp.MustCompile(`^func\s+(.+?)\s*(\{[^}]*\})?\s*$`)
var reLoop = regexp.MustCompile(`^loop\s+(\d+)\s+(invariant|decreases)\s*(.*)$`)
var reAssert = regexp.MustCompile(`^(assert|ghostset|hypothesis)\s*(\[[^\]]*\])?\s*at\s+(\S+)\s*:\s*(.*)$`)

func parseTags(s string) (props, safety []string) {
	s = strings.Trim(s, "{} ")
	parts := strings.SplitN(s, "|", 2)
	for _, f := range strings.Fields(strings.ReplaceAll(parts[0], ",", " ")) {
		props = append(props, f)
	}
	if len(parts) == 2 {
		t := strings.TrimSpace(parts[1])
		t = strings.TrimPrefix(t, "safety:")
		t = strings.TrimPrefix(t, "safety")
		for _, f := range strings.Fields(strings.ReplaceAll(t, ",", " ")) {
			safety = append(safety, f)
		}
	}
	return
}

// LoadContractFile reads //@ lines. pkg is the package path the file belongs to ("" for speclib).
func (cs *ContractSet) LoadContractFile(path, pkg string) error {
	f, err := os.Open(path)
	if err != nil {
		return err
	}
	defer f.Close()
	type rawLine struct {
		text string
		line int
	}
	var lines []rawLine
	sc := bufio.NewScanner(f)
	sc.Buffer(make([]byte, 1<<20), 1<<20)
	n := 0
	for sc.Scan() {
		n++
		t := strings.TrimSpace(sc.Text())
		if !strings.HasPrefix(t, "//@") {
			continue
		}
		t = strings.TrimPrefix(t, "//@")
		if strings.TrimSpace(t) == "" {
			continue
		}
		// strip trailing "// comment" outside strings? keep simple: " //--" introduces a comment
		if i := strings.Index(t, " //--"); i >= 0 {
			t = t[:i]
		}
		lines = append(lines, rawLine{t, n})
	}
	keywords := []string{"func ", "pred ", "ghost ", "uf ", "axiom ", "invariant ", "fieldrange ", "requires", "ensures", "modifies", "decreases", "loop ", "assert", "ghostset", "refines", "trusted", "opaque", "assumption ", "fieldproto ", "fielddelta ", "role ", "allocates", "interface", "join ", "hypothesis", "deterministic", "schema", "locks "}
	isKw := func(s string) bool {
		s = strings.TrimSpace(s)
		for _, k := range keywords {
			if strings.HasPrefix(s, k) {
				return true
			}
		}
		return false
	}
	// join continuation lines
	var joined []rawLine
	for _, l := range lines {
		if !isKw(l.text) && len(joined) > 0 {
			joined[len(joined)-1].text += " " + strings.TrimSpace(l.text)
			continue
		}
		joined = append(joined, rawLine{strings.TrimSpace(l.text), l.line})
	}
	var cur *Contract
	fail := func(l rawLine, f string, a ...interface{}) error {
		return fmt.Errorf("%s:%d: %s", path, l.line, fmt.Sprintf(f, a...))
	}
	takeLabel := func(s string) (label string, props []string, rest string) {
		if m := reLabel.FindStringSubmatch(s); m != nil {
			fs := strings.Fields(m[1])
			if len(fs) > 0 {
				label = fs[0]
				props = fs[1:]
			}
			rest = s[len(m[0]):]
			return
		}
		return "", nil, s
	}
	for _, l := range joined {
		t := l.text
		switch {
		case strings.HasPrefix(t, "func "):
			m := reFuncLine.FindStringSubmatch(t)
			if m == nil {
				return fail(l, "bad func line")
			}
			key := m[1]
			var params []string
			// optional explicit params: key(params) at the very end
			if i := strings.LastIndex(key, "("); i > 0 && strings.HasSuffix(key, ")") && !strings.HasPrefix(key[i:], "(*") && i > strings.LastIndex(key, ").") {
				ps := key[i+1 : len(key)-1]
				key = strings.TrimSpace(key[:i])
				for _, p := range strings.Split(ps, ",") {
					if p = strings.TrimSpace(p); p != "" {
						params = append(params, p)
					}
				}
			}
			cur = &Contract{Key: key, Pkg: pkg, Params: params, Loops: map[int]*LoopSpec{}, File: path, Line: l.line}
			if m[2] != "" {
				cur.Props, cur.SafetyProps = parseTags(m[2])
			}
			k := pkg + "::" + key
			if _, dup := cs.Funcs[k]; dup {
				return fail(l, "duplicate contract for %s", key)
			}
			cs.Funcs[k] = cur
		case strings.HasPrefix(t, "pred "):
			rest := strings.TrimPrefix(t, "pred ")
			i := strings.Index(rest, "=")
			if i < 0 {
				return fail(l, "bad pred")
			}
			head := strings.TrimSpace(rest[:i])
			body := strings.TrimSpace(rest[i+1:])
			j := strings.Index(head, "(")
			if j < 0 || !strings.HasSuffix(head, ")") {
				return fail(l, "bad pred head")
			}
			p := &Pred{Name: strings.TrimSpace(head[:j])}
			for _, a := range strings.Split(head[j+1:len(head)-1], ",") {
				if a = strings.TrimSpace(a); a != "" {
					p.Params = append(p.Params, strings.Fields(a)[0])
				}
			}
			e, err := ParseExpr(body)
			if err != nil {
				return fail(l, "%v", err)
			}
			p.Body = e
			cs.Preds[p.Name] = p
		case strings.HasPrefix(t, "ghost "):
			fs := strings.Fields(t)
			if len(fs) != 3 {
				return fail(l, "bad ghost decl")
			}
			if g, ok := cs.Ghosts[fs[1]]; !ok {
				cs.GhostOrder = append(cs.GhostOrder, fs[1])
			} else if g.Sort != fs[2] {
				return fail(l, "ghost %s redeclared with a different sort (%s vs %s)", fs[1], g.Sort, fs[2])
			}
			cs.Ghosts[fs[1]] = &GhostDecl{fs[1], fs[2]}
		case strings.HasPrefix(t, "uf "):
			// uf name(sort, sort) sort
			rest := strings.TrimPrefix(t, "uf ")
			i := strings.Index(rest, "(")
			j := strings.LastIndex(rest, ")")
			if i < 0 || j < i {
				return fail(l, "bad uf decl")
			}
			u := &UFDecl{Name: strings.TrimSpace(rest[:i]), Result: strings.TrimSpace(rest[j+1:])}
			for _, a := range strings.Split(rest[i+1:j], ",") {
				if a = strings.TrimSpace(a); a != "" {
					u.Params = append(u.Params, a)
				}
			}
			if _, ok := cs.UFs[u.Name]; !ok {
				cs.UFOrder = append(cs.UFOrder, u.Name)
			}
			cs.UFs[u.Name] = u
		case strings.HasPrefix(t, "axiom "):
			label, _, rest := takeLabel(strings.TrimSpace(strings.TrimPrefix(t, "axiom ")))
			e, err := ParseExpr(rest)
			if err != nil {
				return fail(l, "%v", err)
			}
			cs.Axioms = append(cs.Axioms, &AxiomDecl{label, e, rest, path, pkg})
		case strings.HasPrefix(t, "assumption "):
			cs.Assumptions = append(cs.Assumptions, strings.TrimSpace(strings.TrimPrefix(t, "assumption ")))
		case strings.HasPrefix(t, "invariant "):
			rest := strings.TrimPrefix(t, "invariant ")
			i := strings.Index(rest, ":")
			if i < 0 {
				return fail(l, "bad invariant")
			}
			label, iprops, body := takeLabel(strings.TrimSpace(rest[i+1:]))
			e, err := ParseExpr(body)
			if err != nil {
				return fail(l, "%v", err)
			}
			if label == "" {
				label = "inv" + strconv.Itoa(len(cs.ObjInvs)+1)
			}
			cs.ObjInvs = append(cs.ObjInvs, &ObjInv{Type: strings.TrimSpace(rest[:i]), Pkg: pkg, Expr: e, Label: label, Src: body, Props: iprops})
		case strings.HasPrefix(t, "fieldrange "):
			fs := strings.Fields(t)
			if len(fs) != 4 {
				return fail(l, "bad fieldrange")
			}
			tf := strings.SplitN(fs[1], ".", 2)
			if len(tf) != 2 {
				return fail(l, "bad fieldrange target")
			}
			cs.FieldRanges = append(cs.FieldRanges, &FieldRange{pkg, tf[0], tf[1], fs[2], fs[3]})
		case strings.HasPrefix(t, "fielddelta "):
			fs := strings.Fields(t)
			if len(fs) != 3 || !strings.Contains(fs[1], ".") {
				return fail(l, "bad fielddelta")
			}
			tf := strings.SplitN(fs[1], ".", 2)
			cs.FieldDelta = append(cs.FieldDelta, &FieldDelta{Pkg: pkg, Type: tf[0], Field: tf[1], Ghost: fs[2]})
		case strings.HasPrefix(t, "fieldproto "):
			// fieldproto Type.field rule {props}
			fs := strings.Fields(t)
			if len(fs) < 3 {
				return fail(l, "bad fieldproto")
			}
			tf := strings.SplitN(fs[1], ".", 2)
			fp := &FieldProto{Pkg: pkg, Type: tf[0], Field: tf[1], Rule: fs[2]}
			if len(fs) > 3 {
				fp.Props, _ = parseTags(strings.Join(fs[3:], " "))
			}
			cs.FieldProto = append(cs.FieldProto, fp)
		default:
			if cur == nil {
				return fail(l, "clause outside func: %s", t)
			}
			switch {
			case strings.HasPrefix(t, "requires"), strings.HasPrefix(t, "ensures"):
				kind := "requires"
				if strings.HasPrefix(t, "ensures") {
					kind = "ensures"
				}
				label, props, rest := takeLabel(strings.TrimSpace(t[len(kind):]))
				e, err := ParseExpr(rest)
				if err != nil {
					return fail(l, "%v", err)
				}
				c := &Clause{Kind: kind, Label: label, Props: props, Expr: e, Src: rest, File: path, Line: l.line}
				if c.Label == "" {
					if kind == "requires" {
						c.Label = "r" + strconv.Itoa(len(cur.Requires)+1)
					} else {
						c.Label = "e" + strconv.Itoa(len(cur.Ensures)+1)
					}
				}
				if kind == "requires" {
					cur.Requires = append(cur.Requires, c)
				} else {
					cur.Ensures = append(cur.Ensures, c)
				}
			case strings.HasPrefix(t, "modifies"):
				rest := strings.TrimSpace(t[len("modifies"):])
				for _, part := range splitTop(rest) {
					e, err := ParseExpr(part)
					if err != nil {
						return fail(l, "%v", err)
					}
					cur.Modifies = append(cur.Modifies, e)
					cur.ModifiesSrc = append(cur.ModifiesSrc, part)
				}
			case strings.HasPrefix(t, "decreases"):
				rest := strings.TrimSpace(t[len("decreases"):])
				e, err := ParseExpr(rest)
				if err != nil {
					return fail(l, "%v", err)
				}
				cur.Decreases = &Clause{Kind: "decreases", Expr: e, Src: rest, File: path, Line: l.line}
			case strings.HasPrefix(t, "loop "):
				m := reLoop.FindStringSubmatch(t)
				if m == nil {
					return fail(l, "bad loop clause")
				}
				k, _ := strconv.Atoi(m[1])
				ls := cur.Loops[k]
				if ls == nil {
					ls = &LoopSpec{}
					cur.Loops[k] = ls
				}
				label, props, rest := takeLabel(strings.TrimSpace(m[3]))
				var e Expr
				if !(m[2] == "decreases" && strings.TrimSpace(rest) == "*") {
					var err error
					e, err = ParseExpr(rest)
					if err != nil {
						return fail(l, "%v", err)
					}
				}
				c := &Clause{Kind: m[2], Label: label, Props: props, Expr: e, Src: strings.TrimSpace(rest), Loop: k, File: path, Line: l.line}
				if m[2] == "invariant" {
					if c.Label == "" {
						c.Label = "i" + strconv.Itoa(len(ls.Invariants)+1)
					}
					ls.Invariants = append(ls.Invariants, c)
				} else {
					ls.Decreases = c
				}
			case strings.HasPrefix(t, "assert"), strings.HasPrefix(t, "ghostset"), strings.HasPrefix(t, "hypothesis"):
				m := reAssert.FindStringSubmatch(t)
				if m == nil {
					return fail(l, "bad assert/ghostset clause")
				}
				c := &Clause{Kind: m[1], Anchor: m[3], File: path, Line: l.line}
				if m[2] != "" {
					fs := strings.Fields(strings.Trim(m[2], "[]"))
					if len(fs) > 0 {
						c.Label = fs[0]
						c.Props = fs[1:]
					}
				}
				body := m[4]
				if m[1] == "ghostset" {
					i := strings.Index(body, "=")
					if i < 0 {
						return fail(l, "ghostset needs name = expr")
					}
					c.Target = strings.TrimSpace(body[:i])
					body = strings.TrimSpace(body[i+1:])
				}
				e, err := ParseExpr(body)
				if err != nil {
					return fail(l, "%v", err)
				}
				c.Expr = e
				c.Src = body
				if m[1] == "hypothesis" {
					cur.Hypotheses = append(cur.Hypotheses, c)
				} else if m[1] == "assert" {
					if c.Label == "" {
						c.Label = "a" + strconv.Itoa(len(cur.Asserts)+1)
					}
					cur.Asserts = append(cur.Asserts, c)
				} else {
					cur.GhostSets = append(cur.GhostSets, c)
				}
			case strings.HasPrefix(t, "join "):
				// join at ANCHOR : go#K ; EXPR   (apply the spawned function's contract when its result is received)
				rest := strings.TrimSpace(strings.TrimPrefix(t, "join "))
				rest = strings.TrimPrefix(rest, "at ")
				i := strings.Index(rest, ":")
				if i < 0 {
					return fail(l, "bad join clause")
				}
				c := &Clause{Kind: "join", Anchor: strings.TrimSpace(rest[:i]), File: path, Line: l.line}
				body := strings.TrimSpace(rest[i+1:])
				parts := strings.SplitN(body, ";", 2)
				c.Target = strings.TrimSpace(parts[0])
				if len(parts) == 2 && strings.TrimSpace(parts[1]) != "" {
					e, err := ParseExpr(strings.TrimSpace(parts[1]))
					if err != nil {
						return fail(l, "%v", err)
					}
					c.Expr = e
					c.Src = strings.TrimSpace(parts[1])
				}
				cur.Joins = append(cur.Joins, c)
			case strings.HasPrefix(t, "refines"):
				cur.Refines = append(cur.Refines, strings.TrimSpace(t[len("refines"):]))
			case strings.HasPrefix(t, "trusted"):
				cur.Trusted = true
			case strings.HasPrefix(t, "opaque"):
				cur.Opaque = true
			case strings.HasPrefix(t, "allocates"):
				cur.Allocates = true
			case strings.HasPrefix(t, "locks "):
				for _, part := range splitTop(strings.TrimSpace(strings.TrimPrefix(t, "locks "))) {
					e, err := ParseExpr(part)
					if err != nil {
						return fail(l, "%v", err)
					}
					cur.Locks = append(cur.Locks, e)
				}
			case strings.HasPrefix(t, "schema"):
				// schema [label props] ENC => DEC   (each side: TypeName | FuncKey:Type | FuncKey:var(name))
				label, props, rest := takeLabel(strings.TrimSpace(strings.TrimPrefix(t, "schema")))
				parts := strings.Split(rest, "=>")
				if len(parts) != 2 {
					return fail(l, "bad schema clause")
				}
				cur.Schemas = append(cur.Schemas, &Clause{Kind: "schema", Label: label, Props: props, Anchor: strings.TrimSpace(parts[0]), Target: strings.TrimSpace(parts[1]), Src: rest, File: path, Line: l.line})
			case strings.HasPrefix(t, "deterministic"):
				_, props, _ := takeLabel(strings.TrimSpace(strings.TrimPrefix(t, "deterministic")) + " ")
				if len(props) == 0 {
					props = []string{"C07"}
				}
				cur.Deterministic = props
			case strings.HasPrefix(t, "interface"):
				cur.IfaceDecl = true
			case strings.HasPrefix(t, "role "):
				cur.Role = strings.TrimSpace(t[len("role "):])
			default:
				return fail(l, "unknown clause: %s", t)
			}
		}
	}
	return nil
}

// splitTop splits on commas not inside parens/brackets.
func splitTop(s string) []string {
	var out []string
	depth := 0
	start := 0
	for i, c := range s {
		switch c {
		case '(', '[':
			depth++
		case ')', ']':
			depth--
		case ',':
			if depth == 0 {
				out = append(out, strings.TrimSpace(s[start:i]))
				start = i + 1
			}
		}
	}
	if strings.TrimSpace(s[start:]) != "" {
		out = append(out, strings.TrimSpace(s[start:]))
	}
	return out
}
