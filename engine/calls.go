package main

import (
	"fmt"
	"go/token"
	"go/types"
	"strings"

	"golang.org/x/tools/go/ssa"
)

type calleeInfo struct {
	key      string
	fn       *ssa.Function
	sig      *types.Signature
	names    []string // receiver (if any) then params, then free vars
	ptypes   []types.Type
	pkg      *types.Package
	isInvoke bool
	short    string
}

// packages whose functions, absent an explicit contract, are treated as total, effect-free and opaque
var defaultOpaquePkgs = map[string]bool{"strings": true, "strconv": true, "fmt": true, "errors": true, "unicode": true, "unicode/utf8": true, "path": true, "path/filepath": true, "sort": true, "bytes": true, "math": true}

func (g *Gen) contractForCall(fx *fnExec, cc *ssa.CallCommon) (*Contract, *calleeInfo) {
	if cc.IsInvoke() {
		t := cc.Value.Type()
		info := &calleeInfo{isInvoke: true, short: cc.Method.Name()}
		sig := cc.Method.Type().(*types.Signature)
		info.sig = sig
		info.names = []string{"self"}
		info.ptypes = []types.Type{t}
		for i := 0; i < sig.Params().Len(); i++ {
			n := sig.Params().At(i).Name()
			if n == "" || n == "_" {
				n = fmt.Sprintf("arg%d", i)
			}
			info.names = append(info.names, n)
			info.ptypes = append(info.ptypes, sig.Params().At(i).Type())
		}
		var keys []string
		if n := namedOf(t); n != nil && n.Obj().Pkg() != nil {
			info.pkg = n.Obj().Pkg()
			if g.repoPkgs[n.Obj().Pkg().Path()] {
				keys = append(keys, n.Obj().Pkg().Path()+"::("+n.Obj().Name()+")."+cc.Method.Name())
			}
			keys = append(keys, "::("+n.Obj().Pkg().Path()+"."+n.Obj().Name()+")."+cc.Method.Name())
		} else if n != nil {
			keys = append(keys, "::("+n.Obj().Name()+")."+cc.Method.Name()) // error
		} else {
			if fx != nil && fx.pkg != nil {
				keys = append(keys, fx.pkg.Path()+"::(interface)."+cc.Method.Name())
				info.pkg = fx.pkg
			}
			keys = append(keys, "::(interface)."+cc.Method.Name())
		}
		// fall back on the interface that declares the method (embedded interfaces)
		if cc.Method.Pkg() != nil {
			if recv := sig.Recv(); recv != nil {
				if rn := namedOf(recv.Type()); rn != nil && rn.Obj().Pkg() != nil {
					keys = append(keys, "::("+rn.Obj().Pkg().Path()+"."+rn.Obj().Name()+")."+cc.Method.Name())
				}
			}
		}
		for _, k := range keys {
			if ct, ok := g.cs.Funcs[k]; ok {
				info.key = k
				g.applyParamNames(ct, info)
				return ct, info
			}
		}
		info.key = keys[len(keys)-1]
		// interface method without an assumed contract: same conservative default as external functions
		ct := &Contract{Key: info.key, Trusted: true, Opaque: true, Allocates: true, Loops: map[int]*LoopSpec{}, HavocArgs: true}
		g.cs.Funcs[info.key] = ct
		return ct, info
	}
	var fn *ssa.Function
	switch v := cc.Value.(type) {
	case *ssa.Function:
		fn = v
	case *ssa.MakeClosure:
		fn = v.Fn.(*ssa.Function)
	default:
		if fx != nil {
			if o, ok := fx.vals[cc.Value]; ok && o.closure != nil {
				fn = o.closure
			}
		}
	}
	if fn == nil {
		sig, _ := cc.Value.Type().Underlying().(*types.Signature)
		info := &calleeInfo{short: "dynamic", sig: sig, key: "::dynamic"}
		if sig != nil {
			for i := 0; i < sig.Params().Len(); i++ {
				info.names = append(info.names, fmt.Sprintf("arg%d", i))
				info.ptypes = append(info.ptypes, sig.Params().At(i).Type())
			}
		}
		if ct, ok := g.cs.Funcs["::dynamic"]; ok {
			return ct, info
		}
		return nil, info
	}
	return g.contractForFn(fn)
}

func (g *Gen) contractForFn(fn *ssa.Function) (*Contract, *calleeInfo) {
	info := &calleeInfo{fn: fn, sig: fn.Signature, short: fn.Name()}
	pkg := fn.Pkg
	if pkg == nil && fn.Parent() != nil {
		p := fn.Parent()
		for p.Parent() != nil {
			p = p.Parent()
		}
		pkg = p.Pkg
	}
	if pkg == nil {
		// method of instantiated/external type: find via receiver
		if recv := fn.Signature.Recv(); recv != nil {
			t := recv.Type()
			if pt, ok := t.(*types.Pointer); ok {
				t = pt.Elem()
			}
			if n := namedOf(t); n != nil && n.Obj().Pkg() != nil {
				info.pkg = n.Obj().Pkg()
			}
		}
	} else {
		info.pkg = pkg.Pkg
	}
	if len(fn.Params) > 0 || len(fn.Blocks) > 0 {
		for _, p := range fn.Params {
			info.names = append(info.names, p.Name())
			info.ptypes = append(info.ptypes, p.Type())
		}
	} else {
		sig := fn.Signature
		if r := sig.Recv(); r != nil {
			n := r.Name()
			if n == "" || n == "_" {
				n = "self"
			}
			info.names = append(info.names, n)
			info.ptypes = append(info.ptypes, r.Type())
		}
		for i := 0; i < sig.Params().Len(); i++ {
			n := sig.Params().At(i).Name()
			if n == "" || n == "_" {
				n = fmt.Sprintf("arg%d", i)
			}
			info.names = append(info.names, n)
			info.ptypes = append(info.ptypes, sig.Params().At(i).Type())
		}
	}
	for _, fv := range fn.FreeVars {
		info.names = append(info.names, fv.Name())
		info.ptypes = append(info.ptypes, fv.Type())
	}
	if info.pkg != nil && g.repoPkgs[info.pkg.Path()] {
		info.key = info.pkg.Path() + "::" + g.relKey(fn)
	} else {
		info.key = "::" + fn.String()
	}
	ct := g.cs.Funcs[info.key]
	if ct == nil && (info.pkg == nil || !g.repoPkgs[info.pkg.Path()]) {
		// no assumed contract for this external function: total, results unknown, and everything
		// reachable through its pointer / slice / interface arguments may have been modified
		ct = &Contract{Key: fn.String(), Trusted: true, Opaque: true, Allocates: true, Loops: map[int]*LoopSpec{}, HavocArgs: !pureExternal(fn)}
		g.cs.Funcs[info.key] = ct
	}
	if ct != nil {
		g.applyParamNames(ct, info)
	}
	return ct, info
}

func (g *Gen) applyParamNames(ct *Contract, info *calleeInfo) {
	if len(ct.Params) > 0 {
		for i, n := range ct.Params {
			if i < len(info.names) {
				info.names[i] = n
			}
		}
	}
}

func (fx *fnExec) argVals(st *state, cc *ssa.CallCommon) []val {
	var args []val
	if cc.IsInvoke() {
		args = append(args, fx.operand(st, cc.Value))
	}
	for _, a := range cc.Args {
		args = append(args, fx.operand(st, a))
	}
	return args
}

func (fx *fnExec) argNames(st *state, cc *ssa.CallCommon) map[string]sval {
	m := map[string]sval{}
	if b, ok := cc.Value.(*ssa.Builtin); ok && strings.HasPrefix(b.Name(), "ssa:") {
		return m
	}
	for i, a := range fx.argVals(st, cc) {
		m[fmt.Sprintf("arg%d", i)] = fx.toSval(a)
	}
	return m
}

func (fx *fnExec) execCall(st *state, in ssa.Instruction, cc *ssa.CallCommon, rtype types.Type) val {
	if b, ok := cc.Value.(*ssa.Builtin); ok {
		return fx.execBuiltin(st, in, b, cc, rtype)
	}
	args := fx.argVals(st, cc)
	var fv val
	if !cc.IsInvoke() {
		fv = fx.operand(st, cc.Value)
	}
	return fx.execCallWith(st, in, cc, rtype, args, fv, "call")
}

func (fx *fnExec) execCallWith(st *state, in ssa.Instruction, cc *ssa.CallCommon, rtype types.Type, args []val, fv val, mode string) val {
	if b, ok := cc.Value.(*ssa.Builtin); ok {
		return fx.execBuiltin(st, in, b, cc, rtype)
	}
	if mode == "defer" {
		// args were captured at defer time; invoke receiver is in fv
		if cc.IsInvoke() {
			args = append([]val{fv}, args...)
		}
	}
	ct, info := fx.g.contractForCall(fx, cc)
	if fv.closure != nil && ct == nil {
		ct, info = fx.g.contractForFn(fv.closure)
	}
	if fv.closure != nil {
		args = append(append([]val{}, args...), fv.bindings...)
	}
	if cc.IsInvoke() {
		fx.safetyObl("nil", in, in.Pos(), "invoke "+info.short, "(not (= "+args[0].term+" iface_nil))")
	}
	if ct == nil {
		if info.fn != nil && fx.canInline(info.fn) {
			return fx.inlineCall(st, in, info.fn, args, nil)
		}
		if info.fn != nil && len(info.fn.Blocks) > 0 {
			// a function of this module without a contract that cannot be executed in place (it has a
			// loop): the call is treated like an external one (total, results unknown, everything
			// reachable from the arguments havocked) and the function itself is swept for crash-freedom
			// under no precondition, tagged with this function's properties
			fx.g.queueSweep(info.fn, fx.allProps())
			// a helper that provably writes nothing its caller can see needs no havoc (and so cannot
			// disturb the caller's frame clause); anything else is treated like an unknown external
			pure := fx.g.staticPure(info.fn, map[*ssa.Function]bool{})
			if !pure {
				// nothing is known about what this helper does to the caller's state: what fails in the
				// caller from here on is undecided (reported, replayed), not a violation by itself
				if fx.taintedBy == "" {
					fx.warnings = append(fx.warnings, fmt.Sprintf("%s: calls %s, a function of this module with side effects, a loop and no contract; clauses of the caller that fail are undecided", fx.rootFn().String(), info.fn.String()))
				}
				fx.taintedBy = info.fn.String()
			}
			ct = &Contract{Key: info.key, Trusted: true, Opaque: true, Allocates: !pure, Loops: map[int]*LoopSpec{}, HavocArgs: !pure}
			fx.assumptionsUsed["function of this module without a contract, called as opaque and swept for crash-freedom only: "+info.fn.String()] = true
		} else {
			fx.fail("call to %s: no contract and not inlinable (key %s)", callShortName(cc), info.key)
		}
	}
	if rtype == nil && info.sig != nil {
		rtype = info.sig.Results()
	}
	return fx.applyContract(st, in, ct, info, args, rtype, mode)
}

func (fx *fnExec) bindNames(info *calleeInfo, args []val) map[string]sval {
	names := map[string]sval{}
	for i, a := range args {
		if i < len(info.names) {
			sv := fx.toSval(a)
			if sv.typ == nil && i < len(info.ptypes) {
				sv.typ = info.ptypes[i]
			}
			names[info.names[i]] = sv
		}
		names[fmt.Sprintf("arg%d", i)] = fx.toSval(a)
	}
	// callee parameters renamed since the baseline: the old names stay usable in its contract
	if info.fn != nil {
		if old, ok := oldSigs[info.fn.String()]; ok && len(old) == len(info.names) {
			for i := range old {
				if i < len(args) && old[i] != info.names[i] && old[i] != "" && old[i] != "_" {
					if _, clash := names[old[i]]; !clash {
						names[old[i]] = names[info.names[i]]
					}
				}
			}
		}
	}
	return names
}

func (fx *fnExec) applyContract(st *state, in ssa.Instruction, ct *Contract, info *calleeInfo, args []val, rtype types.Type, mode string) val {
	fx.calleesUsed[info.key] = true
	names := fx.bindNames(info, args)
	pre := st.clone()
	cpre := &specCtx{fx: fx, cur: pre, old: pre, names: names, pkg: info.pkg}
	cpre.ssaArgs = fx.ssaArgMap(info, in)
	anchor := fx.anchorName(in)
	if anchor == "" {
		anchor = mode + "(" + info.short + ")"
	}
	if mode == "defer" {
		anchor = "rundefer(" + info.short + ")"
	}
	// requires
	for _, r := range ct.Requires {
		v, ok := fx.tryEval(cpre, r.Expr, "requires ["+r.Label+"] of callee "+info.short)
		if !ok {
			continue
		}
		props := r.Props
		if len(props) == 0 {
			props = unionStr(ct.Props, ct.SafetyProps)
			if ct.Trusted || len(props) == 0 {
				props = fx.safetyProps()
			}
		}
		fx.addObl("requires", anchor+":"+r.Label, props, v.term, in.Pos(), r.Src)
	}
	// recursion measure
	if ct.Decreases != nil && fx.ct.Decreases != nil && info.fn != nil && fx.g.sameSCC(fx.fn, info.fn) {
		cm := cpre.eval(ct.Decreases.Expr)
		m0 := fx.measure0()
		fx.addObl("rec", anchor+":decreases", fx.safetyProps(), "(and (<= 0 "+cm.term+") (< "+cm.term+" "+m0+"))", in.Pos(), ct.Decreases.Src)
	}
	if ct.HavocArgs {
		fx.havocReachableArgs(st, in, args)
		fx.assumptionsUsed["external function without an assumed contract treated as total; results unknown; objects reachable from its arguments havocked: "+strings.TrimPrefix(info.key, "::")] = true
	}
	// modifies
	for i, m := range ct.Modifies {
		for _, l := range fx.evalLocs(cpre, m, ct.ModifiesSrc[i]) {
			fx.havocLoc(st, l, in)
		}
	}
	// a field added after the baseline is mentioned by no contract: a callee of this module may have
	// written it (its own stores to such a field are undecided, not frame violations), so after the call
	// nothing is known about it. Without this the field keeps its initial value and code that depends on
	// it becomes unreachable - vacuously "proved".
	if info.fn != nil && info.fn.Pkg != nil && fx.g.isModulePkg(info.fn.Pkg.Pkg) {
		fx.havocNewFields(st)
	}
	for _, le := range ct.Locks {
		v := cpre.eval(le)
		if v.typ != nil {
			if pt, ok := v.typ.Underlying().(*types.Pointer); ok && structOf(pt.Elem()) != nil {
				for i := 0; i < structOf(pt.Elem()).NumFields(); i++ {
					if structOf(pt.Elem()).Field(i).Type().String() == "sync.Mutex" {
						fx.havocLockProtected(st, &addr{kind: aField, ref: v.term, st: pt.Elem(), field: i})
					}
				}
			}
		}
		if len(fx.ct.Locks) == 0 && fx.ct.Role != "init" {
			fx.addObl("assigns", "locks-declared", fx.allProps(), "false", in.Pos(), "callee may acquire a mutex but this function's contract has no `locks` clause")
		}
	}
	// allocation
	if !ct.Opaque || ct.Allocates {
		na := fx.fresh("alloc", "Int")
		fx.assume("(>= " + na + " " + st.alloc + ")")
		st.alloc = na
	}
	for _, pw := range fx.pendingWT {
		fx.assume(fx.wellTyped(pw[0].(string), pw[1].(types.Type), st.alloc))
	}
	fx.pendingWT = nil
	// results
	var res val
	post := map[string]sval{}
	for k, v := range names {
		post[k] = v
	}
	mkRes := func(t types.Type, i int, single bool) val {
		s := fx.d.SortOf(t)
		base := "r!" + sanitize(info.short)
		r := fx.fresh(base, s)
		fx.assume(fx.wellTyped(r, t, st.alloc))
		fx.pendingInv = append(fx.pendingInv, [2]interface{}{r, t})
		v := val{term: r, typ: t}
		sv := sval{term: r, typ: t, sort: s}
		post[fmt.Sprintf("result%d", i)] = sv
		if single {
			post["result"] = sv
		}
		if info.sig != nil && info.sig.Results().Len() > i {
			if n := info.sig.Results().At(i).Name(); n != "" && n != "_" {
				if _, clash := post[n]; !clash {
					post[n] = sv
				}
			}
		}
		return v
	}
	switch rt := rtype.(type) {
	case nil:
	case *types.Tuple:
		if rt.Len() == 1 {
			res = mkRes(rt.At(0).Type(), 0, true)
		} else if rt.Len() > 1 {
			for i := 0; i < rt.Len(); i++ {
				res.tuple = append(res.tuple, mkRes(rt.At(i).Type(), i, false))
			}
			res.typ = rt
		}
	default:
		res = mkRes(rt, 0, true)
	}
	cpost := &specCtx{fx: fx, cur: st, old: pre, names: post, pkg: info.pkg}
	cpost.ssaArgs = cpre.ssaArgs
	for _, e := range ct.Ensures {
		// a callee clause that does not resolve here (e.g. a closure that no longer captures the
		// variable it names) is not assumed: sound, and reported as an engine error
		v, ok := fx.tryEval(cpost, e.Expr, "ensures ["+e.Label+"] of callee "+info.short)
		if !ok {
			continue
		}
		fx.assume(v.term)
	}
	if info.key == "::(*sync.Mutex).Lock" && len(args) > 0 && args[0].addr != nil && args[0].addr.kind == aField {
		fx.havocLockProtected(st, args[0].addr)
		if len(fx.ct.Locks) == 0 {
			fx.addObl("assigns", "locks-declared", fx.allProps(), "false", in.Pos(), "function acquires a mutex but its contract has no `locks` clause")
		}
	}
	for _, pi := range fx.pendingInv {
		// results of calls: the callee proved the invariant at its return (implicit postcondition)
		fx.assumeObjInvOpt(st, pi[0].(string), pi[1].(types.Type), !ct.Trusted)
	}
	fx.pendingInv = nil
	if ct.Trusted {
		fx.assumptionsUsed["trusted contract: "+strings.TrimPrefix(info.key, "::")] = true
	}
	return res
}

func unionStr(a, b []string) []string {
	m := map[string]bool{}
	var out []string
	for _, x := range append(append([]string{}, a...), b...) {
		if !m[x] {
			m[x] = true
			out = append(out, x)
		}
	}
	return out
}

func (fx *fnExec) measure0() string {
	if fx.measure != "" {
		return fx.measure
	}
	c := &specCtx{fx: fx, cur: fx.entry, old: fx.entry, names: fx.params, pkg: fx.pkg}
	v := c.eval(fx.ct.Decreases.Expr)
	fx.measure = v.term
	return fx.measure
}

// evalLoc for the function's own modifies clause (single location expected per expr, but may be several)
func (fx *fnExec) evalLoc(c *specCtx, e Expr, src string) loc {
	ls := fx.evalLocs(c, e, src)
	if len(ls) == 0 {
		return loc{ghost: "!none"}
	}
	if len(ls) != 1 {
		// keep all: append the rest
		for _, l := range ls[1:] {
			fx.modLocs = append(fx.modLocs, l)
		}
	}
	return ls[0]
}

func (fx *fnExec) evalLocs(c *specCtx, e Expr, src string) []loc {
	switch x := e.(type) {
	case *EIdent:
		if _, ok := fx.g.cs.Ghosts[x.Name]; ok {
			return []loc{{ghost: x.Name}}
		}
	case *EField:
		v := c.eval(x.X)
		if v.addr != nil {
			return fx.addrLocs(v.addr)
		}
		pt, ok := v.typ.Underlying().(*types.Pointer)
		if !ok {
			panic(specErr("modifies %s: base is not a pointer", src))
		}
		i := fieldIndex(structOf(pt.Elem()), x.Name)
		arr, srt := fx.fieldArr(pt.Elem(), i)
		return []loc{{arr: arr, sort: srt, idx: v.term}}
	case *EStar:
		v := c.eval(x.X)
		if v.addr != nil {
			return fx.addrLocs(v.addr)
		}
		pt, ok := v.typ.Underlying().(*types.Pointer)
		if !ok {
			panic(specErr("modifies %s: not a pointer", src))
		}
		return fx.addrLocs(fx.addrOfRef(v.term, pt.Elem()))
	case *ECall:
		switch x.Fn {
		case "pointee":
			// pointee(v): the object a pointer boxed in interface value v points to
			id, ok := x.Args[0].(*EIdent)
			if !ok {
				panic(specErr("pointee() needs a parameter name"))
			}
			if sv, ok := c.ssaArgs[id.Name]; ok {
				if mi, ok := sv.(*ssa.MakeInterface); ok {
					if _, isPtr := mi.X.Type().Underlying().(*types.Pointer); isPtr {
						o := fx.operand(c.cur, mi.X)
						if o.addr != nil {
							return fx.addrLocs(o.addr)
						}
						return fx.addrLocs(fx.addrOfRef(o.term, deref(mi.X.Type())))
					}
					return nil // boxed non-pointer: nothing reachable to modify
				}
			}
			v := c.eval(x.Args[0])
			return []loc{{opaque: v.term}}
		case "elems":
			v := c.eval(x.Args[0])
			et := v.typ.Underlying().(*types.Slice).Elem()
			arr, srt := fx.elemsArr(et)
			return []loc{{arr: arr, sort: srt, idx: "(sl_arr " + v.term + ")"}}
		case "mapof":
			v := c.eval(x.Args[0])
			mt := v.typ.Underlying().(*types.Map)
			md, mv, ds, vs := fx.mapArrs(mt)
			return []loc{{arr: md, sort: ds, idx: v.term}, {arr: mv, sort: vs, idx: v.term}}
		case "anyfield":
			if f, ok := x.Args[0].(*EField); ok {
				pk := ""
				if c.pkg != nil {
					pk = c.pkg.Path()
				}
				t := fx.g.lookupType(pk, f.X.String())
				if t == nil {
					panic(specErr("modifies %s: unknown type", src))
				}
				arr, srt := fx.fieldArr(t, fieldIndex(structOf(t), f.Name))
				return []loc{{arr: arr, sort: srt}}
			}
		}
	}
	panic(specErr("unsupported modifies target %s", src))
}

func (fx *fnExec) addrLocs(a *addr) []loc {
	switch a.kind {
	case aLocal:
		return []loc{{cellLocal: a.cell}}
	case aField:
		arr, srt := fx.fieldArr(a.st, a.field)
		return []loc{{arr: arr, sort: srt, idx: a.ref}}
	case aCell:
		arr, srt := fx.cellArr(a.base)
		return []loc{{arr: arr, sort: srt, idx: a.ref}}
	case aElem:
		arr, srt := fx.elemsArr(a.base)
		return []loc{{arr: arr, sort: srt, idx: a.arr}}
	case aGlobal:
		return nil // package-level variables are not modelled as mutable state
	case aStructObj:
		var out []loc
		s := structOf(a.base)
		for i := 0; i < s.NumFields(); i++ {
			arr, srt := fx.fieldArr(a.base, i)
			out = append(out, loc{arr: arr, sort: srt, idx: a.ref})
		}
		return out
	}
	fx.fail("cannot take location of address kind %d", a.kind)
	return nil
}

func (fx *fnExec) havocLoc(st *state, l loc, in ssa.Instruction) {
	switch {
	case l.opaque != "":
		// object not visible in this function: permitted iff our own modifies names the same pointee
		var alts []string
		for _, m := range fx.modLocs {
			if m.opaque != "" {
				alts = append(alts, "(= "+m.opaque+" "+l.opaque+")")
			}
		}
		fx.addObl("assigns", "pointee#"+fx.anchorName(in), fx.allProps(), or(alts...), in.Pos(), "callee modifies an object this function may not modify")
	case l.ghost != "":
		g := fx.g.cs.Ghosts[l.ghost]
		st.ghost[l.ghost] = fx.fresh("G_"+l.ghost, ghostSort(g.Sort))
	case l.cellLocal != nil:
		st.cells[l.cellLocal] = fx.fresh("h!"+l.cellLocal.Name(), fx.d.SortOf(deref(l.cellLocal.Type())))
	case l.idx == "":
		st.heap[l.arr] = fx.fresh("h!"+l.arr, l.sort)
		fx.heapSort[l.arr] = l.sort
		if wf := fx.heapWF(l.arr, st.heap[l.arr], st.alloc); wf != "" {
			fx.assume(wf)
		}
		fx.assignsObl(l.arr, "(- 1)", in, in.Pos())
	default:
		if !strings.HasPrefix(l.idx, "new!") {
			fx.assignsObl(l.arr, l.idx, in, in.Pos())
		}
		h := fx.heapGet(st, l.arr, l.sort)
		rs := arrayRange(l.sort)
		nv := fx.fresh("hv", rs)
		if t := fx.heapElemType[l.arr]; t != nil && fx.heapDepth[l.arr] == 1 {
			fx.pendingWT = append(fx.pendingWT, [2]interface{}{nv, t})
		}
		fx.heapSet(st, l.arr, l.sort, "(store "+h+" "+l.idx+" "+nv+")")
	}
}

func (fx *fnExec) execGo(st *state, x *ssa.Go) {
	cc := x.Common()
	args := fx.argVals(st, cc)
	var fv val
	if !cc.IsInvoke() {
		fv = fx.operand(st, cc.Value)
	}
	ct, info := fx.g.contractForCall(fx, cc)
	if fv.closure != nil && ct == nil {
		ct, info = fx.g.contractForFn(fv.closure)
	}
	if fv.closure != nil {
		args = append(append([]val{}, args...), fv.bindings...)
	}
	anchor := fx.anchorName(x)
	if ct == nil {
		if info.fn == nil || !fx.canInline(info.fn) {
			fx.fail("go %s: no contract and not inlinable (key %s)", callShortName(cc), info.key)
		}
		fx.spawns[anchor] = &spawnInfo{fn: info.fn, info: info, args: args, in: x}
		return
	}
	fx.calleesUsed[info.key] = true
	names := fx.bindNames(info, args)
	c := &specCtx{fx: fx, cur: st, old: st, names: names, pkg: info.pkg}
	fx.spawns[anchor] = &spawnInfo{fn: info.fn, ct: ct, info: info, args: args, in: x}
	func() {
		defer func() {
			if r := recover(); r != nil {
				if e, ok := r.(engineErr); ok && info.fn != nil && fx.canInline(info.fn) {
					// the spawned function's contract does not resolve against the current source:
					// fall back on executing its body at the join
					fx.warnings = append(fx.warnings, fmt.Sprintf("contract of %s does not resolve (%s); body executed in place instead", info.key, string(e)))
					fx.spawns[anchor].ct = nil
					return
				}
				panic(r)
			}
		}()
		for _, r := range ct.Requires {
			v := c.eval(r.Expr)
			props := r.Props
			if len(props) == 0 {
				props = unionStr(ct.Props, ct.SafetyProps)
			}
			fx.addObl("requires", anchor+":"+r.Label, props, v.term, x.Pos(), r.Src)
		}
	}()
}

func (fx *fnExec) execBuiltin(st *state, in ssa.Instruction, b *ssa.Builtin, cc *ssa.CallCommon, rtype types.Type) val {
	switch b.Name() {
	case "ssa:deferstack":
		return val{term: fx.d.Zero(rtype), typ: rtype}
	case "ssa:wrapnilchk":
		return fx.operand(st, cc.Args[0])
	case "len":
		o := fx.operand(st, cc.Args[0])
		switch fx.d.SortOf(cc.Args[0].Type()) {
		case "Str":
			return val{term: fx.define(fx.vname(in.(ssa.Value)), "Int", "(slen "+o.term+")"), typ: tInt}
		case "Slice":
			return val{term: fx.define(fx.vname(in.(ssa.Value)), "Int", "(sl_len "+o.term+")"), typ: tInt}
		default:
			r := fx.fresh(fx.vname(in.(ssa.Value)), "Int")
			fx.assume("(and (<= 0 " + r + ") (<= " + r + " " + maxLen + "))")
			return val{term: r, typ: tInt}
		}
	case "cap":
		o := fx.operand(st, cc.Args[0])
		if fx.d.SortOf(cc.Args[0].Type()) == "Slice" {
			return val{term: fx.define(fx.vname(in.(ssa.Value)), "Int", "(sl_cap "+o.term+")"), typ: tInt}
		}
		r := fx.fresh(fx.vname(in.(ssa.Value)), "Int")
		fx.assume("(<= 0 " + r + ")")
		return val{term: r, typ: tInt}
	case "append":
		s := fx.operand(st, cc.Args[0])
		t := fx.operand(st, cc.Args[1])
		stype, ok := cc.Args[0].Type().Underlying().(*types.Slice)
		if !ok {
			fx.fail("append on non-slice")
		}
		if _, isStr := cc.Args[1].Type().Underlying().(*types.Basic); isStr {
			fx.fail("append(bytes, string...) unsupported")
		}
		et := stype.Elem()
		es := fx.d.SortOf(et)
		arr, srt := fx.elemsArr(et)
		h := fx.heapGet(st, arr, srt)
		r := fx.newRef(st)
		A := fx.fresh("app", "(Array Int "+es+")")
		fx.assume(fmt.Sprintf("(forall ((i Int)) (! (=> (and (<= 0 i) (< i (sl_len %s))) (= (select %s (at 0 i)) (select (select %s (sl_arr %s)) (at (sl_off %s) i)))) :pattern ((select %s (at 0 i)))))", s.term, A, h, s.term, s.term, A))
		if t.constLen > 0 && t.constLen <= 8 {
			for j := 0; j < t.constLen; j++ {
				fx.assume(fmt.Sprintf("(= (select %s (at 0 (+ (sl_len %s) %d))) (select (select %s (sl_arr %s)) (at (sl_off %s) %d)))", A, s.term, j, h, t.term, t.term, j))
			}
		} else {
			fx.assume(fmt.Sprintf("(forall ((j Int)) (! (=> (and (<= 0 j) (< j (sl_len %s))) (= (select %s (at 0 (+ (sl_len %s) j))) (select (select %s (sl_arr %s)) (at (sl_off %s) j)))) :pattern ((select (select %s (sl_arr %s)) (at (sl_off %s) j)))))", t.term, A, s.term, h, t.term, t.term, h, t.term, t.term))
		}
		fx.heapSet(st, arr, srt, "(store "+h+" "+r+" "+A+")")
		nl := "(+ (sl_len " + s.term + ") (sl_len " + t.term + "))"
		cp := fx.fresh("cap", "Int")
		fx.assume("(and (>= " + cp + " " + nl + ") (<= " + cp + " " + maxLen + "))")
		fx.safetyObl("overflow", in, in.Pos(), "append", "(<= "+nl+" "+maxLen+")")
		res := fx.define(fx.vname(in.(ssa.Value)), "Slice", "(mk_slice "+r+" 0 "+nl+" "+cp+")")
		fx.assumptionsUsed["append modelled as always copying to a fresh backing array (aliasing through spare capacity not modelled)"] = true
		return val{term: res, typ: cc.Args[0].Type()}
	case "close", "print", "println", "delete", "copy":
		if b.Name() == "copy" || b.Name() == "delete" {
			fx.fail("builtin %s unsupported", b.Name())
		}
		return val{term: "unit"}
	}
	fx.fail("builtin %s unsupported", b.Name())
	return val{}
}

// ---------------------------------------------------------------- stubs filled in later stages

// objInvsFor returns the declared object invariants of the struct a pointer type points to.
func (fx *fnExec) objInvsFor(t types.Type) ([]*ObjInv, types.Type) {
	if t == nil {
		return nil, nil
	}
	pt, ok := t.Underlying().(*types.Pointer)
	if !ok {
		return nil, nil
	}
	n := namedOf(pt.Elem())
	if n == nil || n.Obj().Pkg() == nil {
		return nil, nil
	}
	var out []*ObjInv
	for _, oi := range fx.g.cs.ObjInvs {
		if oi.Type == n.Obj().Name() && oi.Pkg == n.Obj().Pkg().Path() {
			out = append(out, oi)
		}
	}
	return out, pt.Elem()
}

func (fx *fnExec) evalObjInv(st *state, oi *ObjInv, term string, t types.Type) string {
	c := &specCtx{fx: fx, cur: st, old: fx.entry, names: map[string]sval{"self": {term: term, typ: t, sort: "Int"}}, pkg: fx.g.typesPkg[oi.Pkg]}
	return c.eval(oi.Expr).term
}

// assumeObjInv: outside the declaring package, every non-nil pointer to a type with declared object
// invariants is assumed to satisfy them (they are proved at every return of the declaring package
// and such objects are never modified after construction: see DESIGN.md, object invariants).
func (fx *fnExec) assumeObjInv(st *state, term string, t types.Type) {
	fx.assumeObjInvOpt(st, term, t, false)
}

func (fx *fnExec) assumeObjInvOpt(st *state, term string, t types.Type, isCallResult bool) {
	ois, _ := fx.objInvsFor(t)
	if len(ois) == 0 || fx.pkg == nil {
		return
	}
	for _, oi := range ois {
		if oi.Pkg == fx.pkg.Path() && !isCallResult {
			continue
		}
		fx.assume("(=> (not (= " + term + " 0)) " + fx.evalObjInv(st, oi, term, t) + ")")
		fx.assumptionsUsed[fmt.Sprintf("object invariant %s.%s [%s] assumed outside its package (proved at every return of the declaring package; objects immutable after construction)", filepathBase(oi.Pkg), oi.Type, oi.Label)] = true
	}
}

func filepathBase(p string) string {
	if i := strings.LastIndex(p, "/"); i >= 0 {
		return p[i+1:]
	}
	return p
}

// objInvAtReturn: in the declaring package every returned pointer satisfies its type's invariants.
func (fx *fnExec) objInvAtReturn(st *state, x *ssa.Return) {
	if fx.pkg == nil {
		return
	}
	for i, r := range x.Results {
		ois, _ := fx.objInvsFor(r.Type())
		for _, oi := range ois {
			v := fx.operand(st, r)
			goal := "(=> (not (= " + v.term + " 0)) " + fx.evalObjInv(st, oi, v.term, r.Type()) + ")"
			props := oi.Props
			if len(props) == 0 {
				props = []string{"C07"}
			}
			fx.addObl("objinv", fmt.Sprintf("result%d:%s[%s]", i, oi.Type, oi.Label), props, goal, x.Pos(), oi.Src)
		}
	}
}

func (fx *fnExec) posOf(in ssa.Instruction) token.Pos { return in.Pos() }

// fieldProtoCheck: lock/role discipline on declared struct fields (C16).
func (fx *fnExec) fieldProtoCheck(st *state, addrV ssa.Value, in ssa.Instruction, isStore bool) {
	fa, ok := addrV.(*ssa.FieldAddr)
	if !ok || len(fx.g.cs.FieldProto) == 0 {
		return
	}
	stT := deref(fa.X.Type())
	n := namedOf(stT)
	if n == nil || n.Obj().Pkg() == nil {
		return
	}
	fname := structOf(stT).Field(fa.Field).Name()
	// default rule: a type that declares a protocol for some of its fields is shared; a store to one of
	// its UNDECLARED fields outside initialisation and outside the single serving goroutine (role server)
	// needs the object's lock (loads are free: such fields
	// are immutable after construction). One clause per type: proto:store(T.*):default.
	if isStore && fx.ct != nil && fx.ct.Role != "init" && fx.ct.Role != "server" {
		declared, typed := false, false
		var dprops []string
		for _, fp := range fx.g.cs.FieldProto {
			if fp.Type == n.Obj().Name() && fp.Pkg == n.Obj().Pkg().Path() {
				typed = true
				dprops = fp.Props
				if fp.Field == fname {
					declared = true
				}
			}
		}
		if typed && !declared && structOf(stT).Field(fa.Field).Type().String() != "sync.Mutex" {
			o := fx.operand(st, fa.X)
			if o.addr == nil && !strings.HasPrefix(o.term, "new!") {
				if len(dprops) == 0 {
					dprops = []string{"C16"}
				}
				held := "(select " + fx.ghostGet(st, "held") + " " + o.term + ")"
				fx.addObl("proto", "store("+n.Obj().Name()+".*):default", dprops, held, in.Pos(), fmt.Sprintf("store of %s.%s: the field has no fieldproto declaration; outside initialisation it may only be written under the object's lock", n.Obj().Name(), fname))
			}
		}
	}
	for _, fp := range fx.g.cs.FieldProto {
		if fp.Type != n.Obj().Name() || fp.Field != fname || fp.Pkg != n.Obj().Pkg().Path() {
			continue
		}
		o := fx.operand(st, fa.X)
		if o.addr != nil || strings.HasPrefix(o.term, "new!") {
			return // object allocated in this activation: not yet shared
		}
		role := fx.ct.Role
		if role == "init" {
			return
		}
		held := "(select " + fx.ghostGet(st, "held") + " " + o.term + ")"
		goal := ""
		switch fp.Rule {
		case "locked":
			goal = held
		case "serverlocked":
			if isStore {
				goal = held
				if role != "server" {
					goal = "false"
				}
			} else if role != "server" {
				goal = held
			}
		case "server":
			if role != "server" {
				goal = "false"
			}
		case "tables":
			if isStore {
				goal = held
			}
		}
		if goal == "" {
			return
		}
		kind := "load"
		if isStore {
			kind = "store"
		}
		an := fx.anchorName(in)
		if an == "" {
			an = kind + "(" + fname + ")"
		}
		props := fp.Props
		if len(props) == 0 {
			props = []string{"C16"}
		}
		fx.addObl("proto", an+":"+fp.Rule, props, goal, in.Pos(), fmt.Sprintf("%s of %s.%s must follow rule '%s' (role %s)", kind, fp.Type, fp.Field, fp.Rule, role))
	}
}

// ssaArgMap maps callee parameter names to the SSA argument values at this call site.
func (fx *fnExec) ssaArgMap(info *calleeInfo, in ssa.Instruction) map[string]ssa.Value {
	m := map[string]ssa.Value{}
	ci, ok := in.(ssa.CallInstruction)
	if !ok {
		return m
	}
	cc := ci.Common()
	var args []ssa.Value
	if cc.IsInvoke() {
		args = append(args, cc.Value)
	}
	args = append(args, cc.Args...)
	for i, a := range args {
		if i < len(info.names) {
			m[info.names[i]] = a
		}
	}
	return m
}

// applyJoins: at a receive that joins a spawned goroutine, apply that function's contract as if it ran here
// (it has finished: its last action was the send being received), then assume the declared relation
// between the received value and the callee's ghosts.
func (fx *fnExec) applyJoins(st *state, in ssa.Instruction, recv val) {
	name := fx.anchorName(in)
	if name == "" {
		return
	}
	for _, j := range fx.ct.Joins {
		if j.Anchor != name {
			continue
		}
		fx.usedAnchors[j] = true
		sp := fx.spawns[j.Target]
		if sp == nil {
			fx.fail("join at %s: no spawn %s seen on this path", name, j.Target)
		}
		if sp.ct != nil {
			ok := func() (ok bool) {
				defer func() {
					if r := recover(); r != nil {
						if e, isE := r.(engineErr); isE && sp.fn != nil && fx.canInline(sp.fn) {
							fx.warnings = append(fx.warnings, fmt.Sprintf("contract of %s does not resolve (%s); body executed in place instead", sp.info.key, string(e)))
							ok = false
							return
						}
						panic(r)
					}
				}()
				// the callee's requires were checked at the go statement; apply effects only
				ct := *sp.ct
				ct.Requires = nil
				snap := st.clone()
				defer func() {
					if !ok {
						*st = *snap
					}
				}()
				fx.applyContract(st, in, &ct, sp.info, sp.args, nil, "join")
				return true
			}()
			if !ok {
				sp.ct = nil
			}
		}
		if sp.ct == nil {
			// no usable contract: execute the spawned function here; the value it sends is the value received
			var sent val
			fx.inlineCall(st, in, sp.fn, sp.args, &sent)
			if sent.term != "" && recv.term != "" {
				fx.assume("(= " + recv.term + " " + sent.term + ")")
				fx.assumptionsUsed["a buffered channel with a single sender delivers the value that was sent (join clauses)"] = true
			}
			continue
		}
		if j.Expr != nil {
			c := &specCtx{fx: fx, cur: st, old: fx.entry, names: fx.params, pkg: fx.pkg}
			c = c.with(map[string]sval{"recv": fx.toSval(recv)})
			c.locals = fx.localLookup(st, in.Block())
			v := c.eval(j.Expr)
			fx.assume(v.term)
			fx.assumptionsUsed["a buffered channel with a single sender delivers the value that was sent (join clauses)"] = true
		}
	}
}

// havocLockProtected: acquiring the mutex of an object gives arbitrary (well-typed) values to the fields
// declared `locked`: other goroutines may have changed them whenever this goroutine did not hold the lock.
func (fx *fnExec) havocLockProtected(st *state, m *addr) {
	n := namedOf(m.st)
	if n == nil || n.Obj().Pkg() == nil {
		return
	}
	stt := structOf(m.st)
	for _, fp := range fx.g.cs.FieldProto {
		if fp.Rule != "locked" || fp.Type != n.Obj().Name() || fp.Pkg != n.Obj().Pkg().Path() {
			continue
		}
		if strings.HasPrefix(m.ref, "new!") {
			continue // object not yet shared
		}
		i := fieldIndex(stt, fp.Field)
		arr, srt := fx.fieldArr(m.st, i)
		h := fx.heapGet(st, arr, srt)
		nv := fx.fresh("lk!"+fp.Field, fx.d.SortOf(stt.Field(i).Type()))
		fx.assume(fx.wellTyped(nv, stt.Field(i).Type(), st.alloc))
		fx.heapSet(st, arr, srt, "(store "+h+" "+m.ref+" "+nv+")")
		fx.assumptionsUsed["fields declared `locked` are havocked at every Lock() of their object (other goroutines may change them while the lock is not held); all other state is treated sequentially"] = true
	}
}

// havocReachableArgs: conservative effect of an external call without a contract.
func (fx *fnExec) havocReachableArgs(st *state, in ssa.Instruction, args []val) {
	ci, _ := in.(ssa.CallInstruction)
	var ssaArgs []ssa.Value
	if ci != nil {
		cc := ci.Common()
		if cc.IsInvoke() {
			ssaArgs = append(ssaArgs, cc.Value)
		}
		ssaArgs = append(ssaArgs, cc.Args...)
	}
	for i, a := range args {
		if a.addr != nil {
			for _, l := range fx.addrLocs(a.addr) {
				fx.havocLoc(st, l, in)
			}
			continue
		}
		if a.typ == nil {
			continue
		}
		switch u := a.typ.Underlying().(type) {
		case *types.Slice:
			arr, srt := fx.elemsArr(u.Elem())
			fx.havocLoc(st, loc{arr: arr, sort: srt, idx: "(sl_arr " + a.term + ")"}, in)
		case *types.Pointer:
			for _, l := range fx.addrLocs(fx.addrOfRef(a.term, u.Elem())) {
				fx.havocLoc(st, l, in)
			}
		case *types.Interface:
			if i < len(ssaArgs) {
				if mi, ok := ssaArgs[i].(*ssa.MakeInterface); ok {
					if pt, isPtr := mi.X.Type().Underlying().(*types.Pointer); isPtr {
						o := fx.operand(st, mi.X)
						if o.addr != nil {
							for _, l := range fx.addrLocs(o.addr) {
								fx.havocLoc(st, l, in)
							}
						} else {
							for _, l := range fx.addrLocs(fx.addrOfRef(o.term, pt.Elem())) {
								fx.havocLoc(st, l, in)
							}
						}
					}
				}
			}
		}
	}
}

// pureExternal: standard-library functions known to write nothing reachable from their arguments
// (package-level functions of strings, bytes, strconv, unicode, unicode/utf8, errors, path; the fmt
// formatting functions that return a value; size queries of bufio.Reader). Assumed, listed in DESIGN.md.
func pureExternal(fn *ssa.Function) bool {
	if fn == nil || fn.Pkg == nil {
		// methods of external types have Pkg set too; a nil Pkg is a synthetic wrapper
		if fn != nil {
			switch fn.String() {
			case "(*bufio.Reader).Buffered", "(*bufio.Reader).Size":
				return true
			}
		}
		return false
	}
	switch fn.String() {
	case "(*bufio.Reader).Buffered", "(*bufio.Reader).Size":
		return true
	case "fmt.Sprintf", "fmt.Sprint", "fmt.Sprintln", "fmt.Errorf":
		return true
	}
	if fn.Signature.Recv() != nil {
		return false
	}
	switch fn.Pkg.Pkg.Path() {
	case "strings", "bytes", "strconv", "unicode", "unicode/utf8", "errors", "path":
		return !strings.HasPrefix(fn.Name(), "Append")
	}
	return false
}

// isModulePkg: the package is one of the repository's own packages (its struct types are in the baseline).
func (g *Gen) isModulePkg(p *types.Package) bool {
	if p == nil {
		return false
	}
	for k := range oldFields {
		if strings.HasPrefix(k, p.Path()+".") {
			return true
		}
	}
	return false
}

// havocNewFields gives an arbitrary (well-formed) value to every heap array of a struct field that the
// baseline does not know.
func (fx *fnExec) havocNewFields(st *state) {
	for _, pk := range fx.g.allPkgs {
		if !fx.g.isModulePkg(pk) {
			continue
		}
		sc := pk.Scope()
		for _, nm := range sc.Names() {
			tn, ok := sc.Lookup(nm).(*types.TypeName)
			if !ok {
				continue
			}
			stt := structOf(tn.Type())
			if stt == nil {
				continue
			}
			old, ok := oldFields[pk.Path()+"."+tn.Name()]
			if !ok {
				continue
			}
			for i := 0; i < stt.NumFields(); i++ {
				known := false
				for _, f := range old {
					if f == stt.Field(i).Name() {
						known = true
					}
				}
				if known {
					continue
				}
				arr, srt := fx.fieldArr(tn.Type(), i)
				st.heap[arr] = fx.fresh("h!"+arr, srt)
				fx.heapSort[arr] = srt
				if wf := fx.heapWF(arr, st.heap[arr], st.alloc); wf != "" {
					fx.assume(wf)
				}
			}
		}
	}
}
