package main

import (
	"bytes"
	"encoding/json"
	"context"
	"fmt"
	"os"
	"os/exec"
	"path/filepath"
	"strings"
	"sync"
	"time"
)

type solverSpec struct {
	name string
	args func(timeoutS int, file string) []string
}

var solvers = map[string]solverSpec{
	"z3-new": {"z3-new", func(t int, f string) []string { return []string{"z3-new", "-smt2", fmt.Sprintf("-T:%d", t), f} }},
	"z3":     {"z3", func(t int, f string) []string { return []string{"z3", "-smt2", fmt.Sprintf("-T:%d", t), f} }},
	"cvc5":   {"cvc5", func(t int, f string) []string { return []string{"cvc5", "--lang=smt2", fmt.Sprintf("--tlimit=%d", t*1000), f} }},
}

// queryText builds the SMT-LIB text for one part of an obligation.
func (o *Obligation) queryText(part int, wantModel bool, extra []string) string {
	return o.queryTextOpt(part, wantModel, extra, false)
}

func (o *Obligation) queryTextOpt(part int, wantModel bool, extra []string, lite bool) string {
	fx := o.fx
	p := o.Parts[part]
	var b strings.Builder
	b.WriteString("(set-option :produce-models true)\n(set-logic ALL)\n")
	for _, l := range prelude {
		if lite && preludeIsHard(l) {
			continue
		}
		b.WriteString(l + "\n")
	}
	b.WriteString("(define-fun nilslice () Slice (mk_slice 0 0 0 0))\n")
	for _, l := range fx.d.lines {
		b.WriteString(l + "\n")
	}
	for _, l := range fx.d.LitDecls() {
		b.WriteString(l + "\n")
	}
	for _, l := range fx.declLines {
		b.WriteString(l + "\n")
	}
	anc := fx.anc[p.blk]
	for i, a := range fx.asserts {
		if a.blk == -1 || (anc[a.blk] && (a.blk != p.blk || i < p.nassert)) || (a.blk == p.blk && i < p.nassert) {
			b.WriteString(a.text + "\n")
		}
	}
	b.WriteString("(assert " + p.reach + ")\n")
	b.WriteString("(assert " + p.neg + ")\n")
	for _, e := range extra {
		b.WriteString(e + "\n")
	}
	b.WriteString("(check-sat)\n")
	if wantModel {
		b.WriteString("(get-model)\n")
	}
	return b.String()
}

type solveCfg struct {
	dir      string
	timeoutS int
	order    []string
	all      bool // thorough: ask every solver, detect disagreement
}

func runSolver(name string, timeoutS int, file string) (status string, out string, dur float64) {
	sp := solvers[name]
	args := sp.args(timeoutS, file)
	ctx, cancel := context.WithTimeout(context.Background(), time.Duration(timeoutS+5)*time.Second)
	defer cancel()
	cmd := exec.CommandContext(ctx, args[0], args[1:]...)
	var buf bytes.Buffer
	cmd.Stdout = &buf
	cmd.Stderr = &buf
	t0 := time.Now()
	cmd.Run()
	dur = time.Since(t0).Seconds()
	out = buf.String()
	first := strings.TrimSpace(strings.SplitN(out, "\n", 2)[0])
	switch first {
	case "sat", "unsat", "unknown":
		status = first
	case "timeout":
		status = "timeout"
	default:
		if ctx.Err() != nil {
			status = "timeout"
		} else if strings.Contains(out, "timeout") || strings.Contains(out, "interrupted") {
			status = "timeout"
		} else {
			status = "error"
		}
	}
	return
}

// solvePart decides one part. Returns status and model output (if sat).
func solveFile(file string, cfg *solveCfg) (status, solver, output string, dur float64) {
	var statuses []string
	final, fsolver, fout := "unknown", "", ""
	for _, s := range cfg.order {
		st, out, d := runSolver(s, cfg.timeoutS, file)
		dur += d
		statuses = append(statuses, s+":"+st)
		if st == "error" {
			fout += "[" + s + "] " + firstLines(out, 5) + "\n"
			continue
		}
		if st == "sat" || st == "unsat" {
			if final == "sat" || final == "unsat" {
				if final != st {
					return "disagree", strings.Join(statuses, ","), out, dur
				}
			} else {
				final, fsolver, fout = st, s, out
			}
			if !cfg.all {
				break
			}
		}
	}
	if final == "unknown" {
		fsolver = strings.Join(statuses, ",")
	}
	return final, fsolver, fout, dur
}

func firstLines(s string, n int) string {
	ls := strings.Split(s, "\n")
	if len(ls) > n {
		ls = ls[:n]
	}
	return strings.Join(ls, "\n")
}

type jobMsg struct {
	Idx     int    `json:"idx"`
	Part    int    `json:"part"`
	File    string `json:"file"`
	Canary  bool   `json:"canary"`
}

type resMsg struct {
	Idx    int     `json:"idx"`
	Part   int     `json:"part"`
	Status string  `json:"status"`
	Solver string  `json:"solver"`
	Out    string  `json:"out"`
	Dur    float64 `json:"dur"`
}

// solveWorkerMain: small helper process (cheap forks) that runs the solvers.
func solveWorkerMain(timeoutS int, all bool, workers int) {
	dec := json.NewDecoder(os.Stdin)
	var jobs []jobMsg
	for {
		var j jobMsg
		if err := dec.Decode(&j); err != nil {
			break
		}
		jobs = append(jobs, j)
	}
	enc := json.NewEncoder(os.Stdout)
	var mu sync.Mutex
	var wg sync.WaitGroup
	ch := make(chan jobMsg)
	for w := 0; w < workers; w++ {
		wg.Add(1)
		go func() {
			defer wg.Done()
			for j := range ch {
				cfg := &solveCfg{timeoutS: timeoutS, order: []string{"z3-new", "z3", "cvc5"}, all: all}
				if j.Canary {
					cfg = &solveCfg{timeoutS: 2, order: []string{"z3-new"}}
				}
				st, solver, out, d := solveFile(j.File, cfg)
				if len(out) > 20000 {
					out = out[:20000]
				}
				mu.Lock()
				enc.Encode(resMsg{j.Idx, j.Part, st, solver, out, d})
				mu.Unlock()
			}
		}()
	}
	for _, j := range jobs {
		ch <- j
	}
	close(ch)
	wg.Wait()
}

func solveAll(obls []*Obligation, cfg *solveCfg, workers int) error {
	// write all query files
	var jobs []jobMsg
	var wg sync.WaitGroup
	sem := make(chan struct{}, workers)
	for i, o := range obls {
		for p := range o.Parts {
			file := filepath.Join(cfg.dir, fmt.Sprintf("q%05d_%d.smt2", i, p))
			jobs = append(jobs, jobMsg{i, p, file, o.Canary})
			wg.Add(1)
			sem <- struct{}{}
			go func(o *Obligation, p int, file string) {
				defer wg.Done()
				os.WriteFile(file, []byte(o.queryText(p, true, nil)), 0o644)
				<-sem
			}(o, p, file)
		}
	}
	wg.Wait()
	args := []string{"-mode", "solve-worker", "-j", fmt.Sprint(workers), "-timeout", fmt.Sprint(cfg.timeoutS)}
	if cfg.all {
		args = append(args, "-tier", "thorough")
	}
	cmd := exec.Command(os.Args[0], args...)
	var in bytes.Buffer
	enc := json.NewEncoder(&in)
	for _, j := range jobs {
		enc.Encode(j)
	}
	cmd.Stdin = &in
	cmd.Stderr = os.Stderr
	outb, err := cmd.Output()
	if err != nil {
		return fmt.Errorf("solve worker: %v", err)
	}
	dec := json.NewDecoder(bytes.NewReader(outb))
	for _, o := range obls {
		o.Status = "unsat"
		o.FailPart = -1
	}
	n := 0
	for {
		var r resMsg
		if err := dec.Decode(&r); err != nil {
			break
		}
		n++
		o := obls[r.Idx]
		o.TimeS += r.Dur
		if r.Status == "unsat" {
			if o.Solver == "" {
				o.Solver = r.Solver
			}
			continue
		}
		// keep the worst: sat > disagree > unknown
		rank := map[string]int{"unsat": 0, "unknown": 1, "timeout": 1, "error": 1, "disagree": 2, "sat": 3}
		if o.FailPart < 0 || rank[r.Status] > rank[o.Status] {
			o.Status = r.Status
			o.Solver = r.Solver
			o.FailPart = r.Part
			o.Output = r.Out
			if r.Status == "sat" {
				o.Model = r.Out
			}
		}
	}
	if n != len(jobs) {
		return fmt.Errorf("solve worker returned %d of %d results", n, len(jobs))
	}
	return nil
}
