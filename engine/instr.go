package main

import (
	"fmt"
	"go/token"
	"go/types"
	"sort"
	"strings"

	"golang.org/x/tools/go/ssa"
)

type anchorInfo struct {
	base string
	k    int
}

// indexAnchors numbers event anchors (call(X), go, select, recv, send, store(f), load(f)) in source order.
func (fx *fnExec) indexAnchors() map[ssa.Instruction]anchorInfo {
	type ev struct {
		in   ssa.Instruction
		base string
		pos  token.Pos
		seq  int
		sub  []ev // events of a contract-less callee that is executed in place, spliced after its call
	}
	seq := 0
	spliced := map[*ssa.Function]bool{}
	root := fx.rootFn()
	// seeThrough: would a static call to f be executed in place? (no contract, loop-free, in this module)
	seeThrough := func(f *ssa.Function, depth int) bool {
		if f == nil || len(f.Blocks) == 0 || depth >= 3 || f == root || spliced[f] {
			return false
		}
		if ct, _ := fx.g.contractForFn(f); ct != nil {
			return false
		}
		for _, b := range f.Blocks {
			for _, s := range b.Succs {
				if s.Dominates(b) {
					return false
				}
			}
		}
		return true
	}
	var collect func(f *ssa.Function, depth int) []ev
	collect = func(f *ssa.Function, depth int) []ev {
		var evs []ev
		for _, b := range f.Blocks {
			for _, in := range b.Instrs {
				seq++
				base := ""
				var sub []ev
				switch x := in.(type) {
				case *ssa.Call:
					base = "call(" + callShortName(x.Common()) + ")"
					// anchors see through helpers that are executed in place: their instructions count
					// as if they stood at the call (so extracting a few lines into a helper, or inlining
					// one, does not renumber the anchors of the function)
					if callee := x.Common().StaticCallee(); callee != nil && seeThrough(callee, depth) {
						spliced[callee] = true
						sub = collect(callee, depth+1)
					}
				case *ssa.Defer:
					base = "defer(" + callShortName(x.Common()) + ")"
				case *ssa.Go:
					base = "go"
				case *ssa.Select:
					base = "select"
				case *ssa.Send:
					base = "send"
				case *ssa.UnOp:
					if x.Op == token.ARROW {
						base = "recv"
					}
					if x.Op == token.MUL {
						if fa, ok := x.X.(*ssa.FieldAddr); ok {
							base = "load(" + fieldName(fa) + ")"
						}
					}
				case *ssa.Store:
					if fa, ok := x.Addr.(*ssa.FieldAddr); ok {
						base = "store(" + fieldName(fa) + ")"
					}
				case *ssa.Return:
					if depth == 0 {
						base = "return"
					}
				case *ssa.Alloc:
					if x.Heap {
						if n := namedOf(deref(x.Type())); n != nil {
							base = "new(" + n.Obj().Name() + ")"
						}
					}
				case *ssa.MakeChan:
					base = "makechan"
				case *ssa.TypeAssert:
					base = "typeassert"
				case *ssa.Extract:
					if _, ok := x.Tuple.(*ssa.Select); ok && x.Index >= 2 {
						base = "selrecv"
					}
				case *ssa.MapUpdate:
					base = "mapupdate"
					if t := fx.nodeText[x.Pos()]; t != "" {
						base = "mapupdate(" + t + ")"
					}
				}
				if base != "" {
					evs = append(evs, ev{in, base, in.Pos(), seq, sub})
				}
			}
		}
		sort.SliceStable(evs, func(i, j int) bool {
			if evs[i].pos != evs[j].pos {
				return evs[i].pos < evs[j].pos
			}
			return evs[i].seq < evs[j].seq
		})
		return evs
	}
	cnt := map[string]int{}
	out := map[ssa.Instruction]anchorInfo{}
	var number func(evs []ev)
	number = func(evs []ev) {
		for _, e := range evs {
			cnt[e.base]++
			out[e.in] = anchorInfo{e.base, cnt[e.base]}
			number(e.sub)
		}
	}
	number(collect(root, 0))
	return out
}

func fieldName(fa *ssa.FieldAddr) string {
	st := deref(fa.X.Type()).Underlying().(*types.Struct)
	return st.Field(fa.Field).Name()
}

func callShortName(cc *ssa.CallCommon) string {
	if cc.IsInvoke() {
		return cc.Method.Name()
	}
	switch v := cc.Value.(type) {
	case *ssa.Function:
		return v.Name()
	case *ssa.Builtin:
		return v.Name()
	case *ssa.MakeClosure:
		return v.Fn.Name()
	}
	return "dynamic"
}

func (fx *fnExec) anchorName(in ssa.Instruction) string {
	if fx.anchors == nil {
		fx.anchors = fx.indexAnchors()
	}
	a, ok := fx.anchors[in]
	if !ok {
		return ""
	}
	return fmt.Sprintf("%s#%d", a.base, a.k)
}

// atAnchor checks asserts anchored here. extra: names visible (arg0.., res0..).
func (fx *fnExec) anchorAsserts(st *state, in ssa.Instruction, extra map[string]sval) {
	name := fx.anchorName(in)
	if name == "" {
		return
	}
	for _, a := range fx.ct.Asserts {
		if a.Anchor != name {
			continue
		}
		fx.usedAnchors[a] = true
		c := &specCtx{fx: fx, cur: st, old: fx.entry, names: fx.params, locals: fx.localLookup(st, in.Block()), pkg: fx.pkg}
		c = c.with(extra)
		c.locals = fx.localLookup(st, in.Block())
		if ci, isCall := in.(ssa.CallInstruction); isCall {
			c.ssaArgs = map[string]ssa.Value{}
			cc := ci.Common()
			var as []ssa.Value
			if cc.IsInvoke() {
				as = append(as, cc.Value)
			}
			as = append(as, cc.Args...)
			for i, av := range as {
				c.ssaArgs[fmt.Sprintf("arg%d", i)] = av
			}
		}
		v, ok := fx.tryEval(c, a.Expr, "assert ["+a.Label+"]")
		if !ok {
			continue
		}
		fx.addObl("assert", a.Label, fx.clauseProps(a, fx.funProps()), v.term, in.Pos(), a.Src)
	}
}

func (fx *fnExec) anchorGhostSets(st *state, in ssa.Instruction, extra map[string]sval) {
	name := fx.anchorName(in)
	if name == "" {
		return
	}
	defer fx.anchorHypotheses(st, in, name, extra)
	for _, a := range fx.ct.GhostSets {
		if a.Anchor != name {
			continue
		}
		fx.usedAnchors[a] = true
		c := &specCtx{fx: fx, cur: st, old: fx.entry, names: fx.params, pkg: fx.pkg}
		c = c.with(extra)
		c.locals = fx.localLookup(st, in.Block())
		v := c.eval(a.Expr)
		g := fx.g.cs.Ghosts[a.Target]
		if g == nil {
			fx.fail("ghostset of unknown ghost %s", a.Target)
		}
		if v.sort == "nil" {
			switch ghostSort(g.Sort) {
			case "Iface":
				v.term = "iface_nil"
			case "Int":
				v.term = "0"
			}
		}
		n := fx.fresh("G_"+a.Target, ghostSort(g.Sort))
		fx.assert("(= " + n + " " + v.term + ")")
		st.ghost[a.Target] = n
	}
}

func (fx *fnExec) safetyObl(kind string, in ssa.Instruction, pos token.Pos, fallback, goal string) {
	if !pos.IsValid() {
		pos = in.Pos()
	}
	text := fx.nodeText[pos]
	if text == "" {
		text = fallback
	}
	n := fx.g.occurrenceOf(fx, text, pos)
	fx.addObl(kind, fmt.Sprintf("%s#%d", text, n), fx.safetyProps(), goal, pos, text)
}

func (fx *fnExec) addrOf(st *state, v ssa.Value, in ssa.Instruction) *addr {
	o := fx.operand(st, v)
	if o.addr != nil {
		return o.addr
	}
	elem := deref(v.Type())
	return fx.addrOfRef(o.term, elem)
}

func (fx *fnExec) nilCheck(st *state, a *addr, in ssa.Instruction, pos token.Pos) {
	switch a.kind {
	case aField, aCell, aStructObj:
		if strings.HasPrefix(a.ref, "new!") {
			return
		}
		fx.safetyObl("nil", in, pos, "deref "+in.String(), "(not (= "+a.ref+" 0))")
	}
}

// assignsCheck: store target must be local, fresh, or in modifies.
func (fx *fnExec) assignsCheck(st *state, a *addr, in ssa.Instruction, pos token.Pos) {
	var arrs []string
	var idx string
	switch a.kind {
	case aLocal, aGlobal:
		return
	case aField:
		arr, _ := fx.fieldArr(a.st, a.field)
		arrs, idx = []string{arr}, a.ref
		if n := namedOf(a.st); n != nil && n.Obj().Pkg() != nil && n.Obj().Parent() != n.Obj().Pkg().Scope() && !strings.HasPrefix(idx, "new!") {
			// a struct type declared inside a function: its instances are that function's private
			// working state (possibly shared with its closures); no contract of another function can
			// speak about them, so a store through a captured instance is undecided, not a frame violation
			before := len(fx.obls)
			fx.assignsObl(arr, idx, in, pos)
			for _, o := range fx.obls[before:] {
				if len(fx.obls) > before {
					o.NewField = true
				}
			}
			return
		}
		if n := namedOf(a.st); n != nil && n.Obj().Pkg() != nil {
			if old, ok := oldFields[n.Obj().Pkg().Path()+"."+n.Obj().Name()]; ok {
				known := false
				fname := structOf(a.st).Field(a.field).Name()
				for _, f := range old {
					if f == fname {
						known = true
					}
				}
				if !known {
					if strings.HasPrefix(idx, "new!") {
						return
					}
					before := len(fx.obls)
					fx.assignsObl(arr, idx, in, pos)
					for _, o := range fx.obls[before:] {
						o.NewField = true
					}
					return
				}
			}
		}
	case aCell:
		arr, _ := fx.cellArr(a.base)
		arrs, idx = []string{arr}, a.ref
	case aElem:
		arr, _ := fx.elemsArr(a.base)
		arrs, idx = []string{arr}, a.arr
	case aStructObj:
		s := structOf(a.base)
		for i := 0; i < s.NumFields(); i++ {
			arr, _ := fx.fieldArr(a.base, i)
			arrs = append(arrs, arr)
		}
		idx = a.ref
		if n := namedOf(a.base); n != nil && n.Obj().Pkg() != nil && n.Obj().Parent() != n.Obj().Pkg().Scope() && !strings.HasPrefix(idx, "new!") {
			// whole-struct store to an instance of a function-private struct type (see aField)
			before := len(fx.obls)
			for _, arr := range arrs {
				fx.assignsObl(arr, idx, in, pos)
			}
			for _, o := range fx.obls[before:] {
				o.NewField = true
			}
			return
		}
	}
	if strings.HasPrefix(idx, "new!") {
		return
	}
	for _, arr := range arrs {
		fx.assignsObl(arr, idx, in, pos)
	}
}

func (fx *fnExec) assignsObl(arr, idx string, in ssa.Instruction, pos token.Pos) {
	alts := []string{"(> " + idx + " alloc!0)"}
	for _, l := range fx.modLocs {
		if l.arr == arr {
			if l.idx == "" {
				return // whole array allowed
			}
			alts = append(alts, "(= "+idx+" "+l.idx+")")
		}
	}
	if !pos.IsValid() {
		pos = in.Pos()
	}
	text := fx.nodeText[pos]
	if text == "" {
		text = arr
	}
	n := fx.g.occurrenceOf(fx, text, pos)
	fx.addObl("assigns", fmt.Sprintf("%s#%d", text, n), fx.immutProps(arr, fx.allProps()), or(alts...), pos, "write to "+arr+" permitted by modifies")
}

// immutProps: a store to a field of a type that has declared object invariants is also an obligation of
// every property those invariants serve - the invariants are assumed elsewhere on the strength of
// "objects of this type are never modified after construction", and this frame obligation is that premise.
func (fx *fnExec) immutProps(arr string, props []string) []string {
	out := append([]string{}, props...)
	has := map[string]bool{}
	for _, p := range out {
		has[p] = true
	}
	for _, oi := range fx.g.cs.ObjInvs {
		t := fx.g.lookupType(oi.Pkg, oi.Type)
		if t == nil || structOf(t) == nil {
			continue
		}
		for i := 0; i < structOf(t).NumFields(); i++ {
			if a, _ := fx.fieldArr(t, i); a == arr {
				ps := oi.Props
				if len(ps) == 0 {
					ps = []string{"C07"}
				}
				for _, p := range ps {
					if !has[p] {
						has[p] = true
						out = append(out, p)
					}
				}
			}
		}
	}
	return out
}

func (fx *fnExec) newRef(st *state) string {
	r := fx.fresh("new", "Int")
	fx.assert("(= " + r + " (+ " + st.alloc + " 1))")
	st.alloc = r
	return r
}

func (fx *fnExec) execInstr(st *state, in ssa.Instruction) {
	fx.curState = st
	switch x := in.(type) {
	case *ssa.DebugRef:
		return
	case *ssa.Alloc:
		elem := deref(x.Type())
		if !x.Heap {
			if _, isArr := elem.Underlying().(*types.Array); isArr {
				fx.fail("local array cell %s unsupported", x.Name())
			}
			st.cells[x] = fx.d.Zero(elem)
			fx.vals[x] = val{addr: &addr{kind: aLocal, cell: x, base: elem, typ: elem}, typ: x.Type()}
			return
		}
		r := fx.newRef(st)
		if at, isArr := elem.Underlying().(*types.Array); isArr {
			// backing array object: elements zero
			arr, srt := fx.elemsArr(at.Elem())
			h := fx.heapGet(st, arr, srt)
			z := fx.fresh("zarr", "(Array Int "+fx.d.SortOf(at.Elem())+")")
			for i := int64(0); i < at.Len() && i < 8; i++ {
				fx.assert(fmt.Sprintf("(= (select %s (at 0 %d)) %s)", z, i, fx.d.Zero(at.Elem())))
			}
			fx.heapSet(st, arr, srt, "(store "+h+" "+r+" "+z+")")
			fx.vals[x] = val{term: r, typ: x.Type(), constLen: int(at.Len())}
			return
		}
		a := fx.addrOfRef(r, elem)
		fx.storeAddr(st, a, fx.d.Zero(elem))
		fx.vals[x] = val{term: r, typ: x.Type()}
		fx.anchorGhostSets(st, in, map[string]sval{"res0": {term: r, typ: x.Type(), sort: "Int"}})
	case *ssa.Store:
		a := fx.addrOf(st, x.Addr, in)
		fx.nilCheck(st, a, in, x.Pos())
		fx.anchorAsserts(st, in, nil)
		fx.fieldProtoCheck(st, x.Addr, in, true)
		fx.assignsCheck(st, a, in, x.Pos())
		v := fx.operand(st, x.Val)
		if v.addr != nil {
			fx.fail("storing an address value (%s)", x.Val.Name())
		}
		fx.fieldDelta(st, x.Addr, a, v.term)
		fx.storeAddr(st, a, v.term)
		fx.anchorGhostSets(st, in, nil)
	case *ssa.UnOp:
		fx.execUnOp(st, x)
	case *ssa.BinOp:
		fx.execBinOp(st, x)
	case *ssa.FieldAddr:
		o := fx.operand(st, x.X)
		stT := deref(x.X.Type())
		ft := structOf(stT).Field(x.Field).Type()
		if o.addr != nil {
			if o.addr.kind == aStructObj {
				fx.vals[x] = val{addr: &addr{kind: aField, ref: o.addr.ref, st: stT, field: x.Field, base: ft, typ: ft}, typ: x.Type()}
				return
			}
			fx.vals[x] = val{addr: o.addr.extend(stT, x.Field, ft), typ: x.Type()}
			return
		}
		if !strings.HasPrefix(o.term, "new!") {
			fx.safetyObl("nil", in, x.Pos(), "field "+structOf(stT).Field(x.Field).Name(), "(not (= "+o.term+" 0))")
		}
		fx.vals[x] = val{addr: &addr{kind: aField, ref: o.term, st: stT, field: x.Field, base: ft, typ: ft}, typ: x.Type()}
	case *ssa.Field:
		o := fx.operand(st, x.X)
		sn := fx.d.SortOf(x.X.Type())
		fx.vals[x] = val{term: fmt.Sprintf("(%s_%d %s)", sn, x.Field, o.term), typ: x.Type()}
		fx.assumeObjInv(st, fx.vals[x].term, x.Type())
	case *ssa.IndexAddr:
		o := fx.operand(st, x.X)
		i := fx.termOf(st, x.Index)
		switch u := x.X.Type().Underlying().(type) {
		case *types.Slice:
			fx.safetyObl("bounds", in, x.Pos(), "index", "(and (<= 0 "+i+") (< "+i+" (sl_len "+o.term+")))")
			fx.vals[x] = val{addr: &addr{kind: aElem, arr: "(sl_arr " + o.term + ")", idx: "(at (sl_off " + o.term + ") " + i + ")", base: u.Elem(), typ: u.Elem()}, typ: x.Type()}
		case *types.Pointer:
			at := u.Elem().Underlying().(*types.Array)
			fx.safetyObl("bounds", in, x.Pos(), "index", fmt.Sprintf("(and (<= 0 %s) (< %s %d))", i, i, at.Len()))
			fx.vals[x] = val{addr: &addr{kind: aElem, arr: o.term, idx: "(at 0 " + i + ")", base: at.Elem(), typ: at.Elem()}, typ: x.Type()}
		default:
			fx.fail("IndexAddr on %s", x.X.Type())
		}
	case *ssa.Index:
		o := fx.operand(st, x.X)
		k := fx.termOf(st, x.Index)
		if _, isStr := x.X.Type().Underlying().(*types.Basic); !isStr {
			fx.fail("Index on array value unsupported")
		}
		fx.safetyObl("bounds", in, x.Pos(), "index", "(and (<= 0 "+k+") (< "+k+" (slen "+o.term+")))")
		fx.vals[x] = val{term: fx.define(fx.vname(x), "Int", "(sat "+o.term+" "+k+")"), typ: x.Type()}
	case *ssa.Lookup:
		o := fx.operand(st, x.X)
		k := fx.termOf(st, x.Index)
		switch u := x.X.Type().Underlying().(type) {
		case *types.Basic: // string
			fx.safetyObl("bounds", in, x.Pos(), "index", "(and (<= 0 "+k+") (< "+k+" (slen "+o.term+")))")
			fx.vals[x] = val{term: fx.define(fx.vname(x), "Int", "(sat "+o.term+" "+k+")"), typ: x.Type()}
		case *types.Map:
			md, mv, ds, vs := fx.mapArrs(u)
			dom := "(select (select " + fx.heapGet(st, md, ds) + " " + o.term + ") " + k + ")"
			v := "(select (select " + fx.heapGet(st, mv, vs) + " " + o.term + ") " + k + ")"
			okT := fx.define(fx.vname(x)+"!ok", "Bool", and("(not (= "+o.term+" 0))", dom))
			vT := fx.define(fx.vname(x)+"!v", fx.d.SortOf(u.Elem()), "(ite "+okT+" "+v+" "+fx.d.Zero(u.Elem())+")")
			fx.assume(fx.wellTyped(vT, u.Elem(), st.alloc))
			if x.CommaOk {
				fx.vals[x] = val{tuple: []val{{term: vT, typ: u.Elem()}, {term: okT, typ: tBool}}, typ: x.Type()}
			} else {
				fx.vals[x] = val{term: vT, typ: x.Type()}
			}
		}
	case *ssa.Slice:
		fx.execSlice(st, x)
	case *ssa.Call:
		extra := fx.argNames(st, x.Common())
		fx.anchorAsserts(st, in, extra)
		r := fx.execCall(st, in, x.Common(), x.Type())
		fx.vals[x] = r
		res := map[string]sval{}
		for k, v := range extra {
			res[k] = v
		}
		if r.tuple != nil {
			for i, t := range r.tuple {
				res[fmt.Sprintf("res%d", i)] = fx.toSval(t)
			}
		} else if r.term != "" {
			res["res0"] = fx.toSval(r)
			res["res"] = fx.toSval(r)
		}
		fx.anchorGhostSets(st, in, res)
	case *ssa.Go:
		extra := fx.argNames(st, x.Common())
		fx.anchorAsserts(st, in, extra)
		fx.execGo(st, x)
		fx.anchorGhostSets(st, in, extra)
	case *ssa.Defer:
		fx.anchorAsserts(st, in, nil)
		st.defers = append(append([]*ssa.Defer{}, st.defers...), x)
		// evaluate arguments now
		var args []val
		for _, a := range x.Call.Args {
			args = append(args, fx.operand(st, a))
		}
		fx.deferArgs[x] = args
		fx.deferFn[x] = fx.operand(st, x.Call.Value)
		fx.anchorGhostSets(st, in, nil)
	case *ssa.RunDefers:
		for i := len(st.defers) - 1; i >= 0; i-- {
			d := st.defers[i]
			fx.execCallWith(st, d, &d.Call, nil, fx.deferArgs[d], fx.deferFn[d], "defer")
		}
	case *ssa.Extract:
		t := fx.operand(st, x.Tuple)
		if t.tuple == nil {
			fx.fail("extract from non-tuple %s", x.Tuple.Name())
		}
		fx.vals[x] = t.tuple[x.Index]
		if _, ok := x.Tuple.(*ssa.Select); ok && x.Index >= 2 {
			fx.applyJoins(st, in, t.tuple[x.Index])
			fx.anchorGhostSets(st, in, map[string]sval{"recv": fx.toSval(t.tuple[x.Index])})
		}
	case *ssa.Phi:
		var terms []string
		var conds []string
		for i, e := range x.Edges {
			p := x.Block().Preds[i]
			k := [2]int{fx.kb + p.Index, fx.kb + x.Block().Index}
			if fx.kb == 0 && fx.backEdge[k] {
				fx.fail("phi with loop-carried operand unsupported")
			}
			c, ok := fx.edge[k]
			if !ok {
				continue
			}
			terms = append(terms, fx.termOf(st, e))
			conds = append(conds, c)
		}
		t := terms[len(terms)-1]
		for i := len(terms) - 2; i >= 0; i-- {
			t = "(ite " + conds[i] + " " + terms[i] + " " + t + ")"
		}
		fx.vals[x] = val{term: fx.define(fx.vname(x), fx.d.SortOf(x.Type()), t), typ: x.Type()}
	case *ssa.MakeInterface:
		o := fx.operand(st, x.X)
		if o.addr != nil {
			fx.fail("boxing address value")
		}
		bx, _ := fx.d.Box(x.X.Type())
		fx.vals[x] = val{term: fx.define(fx.vname(x), "Iface", "("+bx+" "+o.term+")"), typ: x.Type()}
	case *ssa.ChangeInterface:
		fx.vals[x] = val{term: fx.termOf(st, x.X), typ: x.Type()}
	case *ssa.ChangeType:
		o := fx.operand(st, x.X)
		o.typ = x.Type()
		fx.vals[x] = o
	case *ssa.Convert:
		fx.execConvert(st, x)
	case *ssa.TypeAssert:
		fx.execTypeAssert(st, x)
	case *ssa.MakeMap:
		r := fx.newRef(st)
		mt := x.Type().Underlying().(*types.Map)
		md, _, ds, _ := fx.mapArrs(mt)
		ks := fx.d.SortOf(mt.Key())
		fx.heapSet(st, md, ds, fmt.Sprintf("(store %s %s ((as const (Array %s Bool)) false))", fx.heapGet(st, md, ds), r, ks))
		fx.vals[x] = val{term: r, typ: x.Type()}
	case *ssa.MakeChan:
		r := fx.newRef(st)
		fx.vals[x] = val{term: r, typ: x.Type()}
		fx.anchorAsserts(st, in, map[string]sval{"size": fx.toSval(fx.operand(st, x.Size))})
	case *ssa.MakeSlice:
		r := fx.newRef(st)
		l := fx.termOf(st, x.Len)
		c := fx.termOf(st, x.Cap)
		fx.safetyObl("bounds", in, x.Pos(), "make", "(and (<= 0 "+l+") (<= "+l+" "+c+"))")
		et := x.Type().Underlying().(*types.Slice).Elem()
		arr, srt := fx.elemsArr(et)
		z := fx.fresh("zarr", "(Array Int "+fx.d.SortOf(et)+")")
		fx.assume(fmt.Sprintf("(forall ((i Int)) (! (= (select %s i) %s) :pattern ((select %s i))))", z, fx.d.Zero(et), z))
		fx.heapSet(st, arr, srt, "(store "+fx.heapGet(st, arr, srt)+" "+r+" "+z+")")
		fx.vals[x] = val{term: fx.define(fx.vname(x), "Slice", "(mk_slice "+r+" 0 "+l+" "+c+")"), typ: x.Type()}
	case *ssa.MakeClosure:
		r := fx.newRef(st)
		var bs []val
		for _, b := range x.Bindings {
			bs = append(bs, fx.operand(st, b))
		}
		fx.vals[x] = val{term: r, typ: x.Type(), closure: x.Fn.(*ssa.Function), bindings: bs}
	case *ssa.MapUpdate:
		m := fx.termOf(st, x.Map)
		k := fx.termOf(st, x.Key)
		v := fx.termOf(st, x.Value)
		mt := x.Map.Type().Underlying().(*types.Map)
		fx.anchorAsserts(st, in, map[string]sval{"key": fx.toSval(fx.operand(st, x.Key))})
		fx.safetyObl("nil", in, x.Pos(), "mapupdate", "(not (= "+m+" 0))")
		md, mv, ds, vs := fx.mapArrs(mt)
		fx.assignsObl(md, m, in, x.Pos())
		hd := fx.heapGet(st, md, ds)
		hv := fx.heapGet(st, mv, vs)
		fx.heapSet(st, md, ds, fmt.Sprintf("(store %s %s (store (select %s %s) %s true))", hd, m, hd, m, k))
		fx.heapSet(st, mv, vs, fmt.Sprintf("(store %s %s (store (select %s %s) %s %s))", hv, m, hv, m, k, v))
	case *ssa.Send:
		if fx.inl != nil && fx.inl.sink != nil {
			*fx.inl.sink = fx.operand(st, x.X)
			fx.inl.sent = true
		}
		extra := map[string]sval{"sent": fx.toSval(fx.operand(st, x.X)), "chan": fx.toSval(fx.operand(st, x.Chan))}
		fx.anchorAsserts(st, in, extra)
		fx.anchorGhostSets(st, in, extra)
	case *ssa.Select:
		var ts []val
		idx := fx.fresh(fx.vname(x)+"!idx", "Int")
		n := len(x.States)
		if !x.Blocking {
			fx.assume(fmt.Sprintf("(and (<= (- 1) %s) (< %s %d))", idx, idx, n))
		} else {
			fx.assume(fmt.Sprintf("(and (<= 0 %s) (< %s %d))", idx, idx, n))
		}
		ts = append(ts, val{term: idx, typ: tInt}, val{term: fx.fresh(fx.vname(x)+"!ok", "Bool"), typ: tBool})
		for i, s := range x.States {
			// a receive from ctx.Done() completing means the context is done (so ctx.Err() != nil)
			if c, ok := s.Chan.(*ssa.Call); ok && c.Call.IsInvoke() && c.Call.Method.Name() == "Done" {
				if u, ok := fx.g.cs.UFs["ctxDone"]; ok {
					fx.declareUF(u)
					fx.assume(fmt.Sprintf("(=> (= %s %d) (ctxDone %s))", idx, i, fx.termOf(st, c.Call.Value)))
					fx.assumptionsUsed["a receive from ctx.Done() completing implies ctx.Err() != nil (context package contract)"] = true
				}
			}
		}
		for _, s := range x.States {
			if s.Dir == types.RecvOnly {
				et := s.Chan.Type().Underlying().(*types.Chan).Elem()
				rv := fx.fresh(fx.vname(x)+"!rv", fx.d.SortOf(et))
				fx.assume(fx.wellTyped(rv, et, st.alloc))
				ts = append(ts, val{term: rv, typ: et})
			}
		}
		fx.vals[x] = val{tuple: ts, typ: x.Type()}
		fx.anchorAsserts(st, in, nil)
		fx.anchorGhostSets(st, in, map[string]sval{"index": {term: idx, typ: tInt, sort: "Int"}})
	case *ssa.If:
		c := fx.termOf(st, x.Cond)
		b := x.Block()
		fx.flow(st, b, b.Succs[0], c, in)
		fx.flow(st, b, b.Succs[1], not(c), in)
	case *ssa.Jump:
		b := x.Block()
		fx.flow(st, b, b.Succs[0], "true", in)
	case *ssa.Return:
		fx.execReturn(st, x)
	case *ssa.Panic:
		// explicit panic: must be unreachable
		fx.safetyObl("panic", in, x.Pos(), "panic", "false")
	default:
		fx.fail("unsupported instruction %T: %s", in, in.String())
	}
}

func (fx *fnExec) vname(v ssa.Value) string {
	if fx.kb != 0 {
		return fmt.Sprintf("v!i%d!%s", fx.kb/1000000, v.Name())
	}
	return "v!" + v.Name()
}

func (fx *fnExec) flow(st *state, from, to *ssa.BasicBlock, cond string, in ssa.Instruction) {
	k := [2]int{fx.kb + from.Index, fx.kb + to.Index}
	ec := and(fx.reach[fx.kb+from.Index], cond)
	if fx.kb == 0 && fx.backEdge[k] {
		li := fx.loops[to.Index]
		pos := in.Pos()
		if !pos.IsValid() {
			pos = fx.lastPos(from)
		}
		fx.backEdgeObls(li, st, ec, pos)
		return
	}
	if prev, ok := fx.edge[k]; ok {
		// both If branches to the same block
		fx.edge[k] = or(prev, ec)
	} else {
		fx.edge[k] = ec
	}
	fx.out[fx.kb+from.Index] = st
}

func (fx *fnExec) lastPos(b *ssa.BasicBlock) token.Pos {
	for i := len(b.Instrs) - 1; i >= 0; i-- {
		if p := b.Instrs[i].Pos(); p.IsValid() {
			return p
		}
	}
	return fx.fn.Pos()
}

func (fx *fnExec) toSval(v val) sval {
	if v.addr != nil {
		return sval{addr: v.addr, typ: v.typ}
	}
	s := ""
	if v.typ != nil {
		if _, isT := v.typ.(*types.Tuple); !isT {
			s = fx.d.SortOf(v.typ)
		}
	}
	return sval{term: v.term, typ: v.typ, sort: s}
}

func (fx *fnExec) execUnOp(st *state, x *ssa.UnOp) {
	switch x.Op {
	case token.MUL:
		a := fx.addrOf(st, x.X, x)
		fx.nilCheck(st, a, x, x.Pos())
		fx.anchorAsserts(st, x, nil)
		fx.fieldProtoCheck(st, x.X, x, false)
		t := fx.loadAddr(st, a)
		elem := deref(x.X.Type())
		if _, isArr := elem.Underlying().(*types.Array); isArr {
			fx.fail("load of array value")
		}
		n := fx.define(fx.vname(x), fx.d.SortOf(elem), t)
		if a.kind != aLocal {
			fx.assume(fx.wellTyped(n, elem, st.alloc))
			if a.kind == aField {
				fx.fieldRangeAssume(n, a)
			}
		}
		fx.vals[x] = val{term: n, typ: x.Type()}
		fx.assumeObjInv(st, n, x.Type())
		fx.anchorGhostSets(st, x, map[string]sval{"res0": {term: n, typ: x.Type(), sort: fx.d.SortOf(elem)}})
	case token.NOT:
		fx.vals[x] = val{term: fx.define(fx.vname(x), "Bool", not(fx.termOf(st, x.X))), typ: x.Type()}
	case token.SUB:
		o := fx.termOf(st, x.X)
		fx.vals[x] = val{term: fx.define(fx.vname(x), "Int", "(- "+o+")"), typ: x.Type()}
	case token.ARROW:
		et := x.X.Type().Underlying().(*types.Chan).Elem()
		rv := fx.fresh(fx.vname(x), fx.d.SortOf(et))
		fx.assume(fx.wellTyped(rv, et, st.alloc))
		extra := map[string]sval{"chan": fx.toSval(fx.operand(st, x.X))}
		fx.anchorAsserts(st, x, extra)
		if x.CommaOk {
			fx.vals[x] = val{tuple: []val{{term: rv, typ: et}, {term: fx.fresh(fx.vname(x)+"!ok", "Bool"), typ: tBool}}, typ: x.Type()}
		} else {
			fx.vals[x] = val{term: rv, typ: x.Type()}
		}
		fx.applyJoins(st, x, val{term: rv, typ: et})
		fx.anchorGhostSets(st, x, extra)
	default:
		fx.fail("unsupported unary op %s", x.Op)
	}
}

func (fx *fnExec) fieldRangeAssume(term string, a *addr) {
	n := namedOf(a.st)
	if n == nil {
		return
	}
	fname := structOf(a.st).Field(a.field).Name()
	for _, fr := range fx.g.cs.FieldRanges {
		if fr.Type == n.Obj().Name() && fr.Field == fname && n.Obj().Pkg() != nil && n.Obj().Pkg().Path() == fr.Pkg {
			fx.assume("(and (<= " + smtInt(fr.Lo) + " " + term + ") (<= " + term + " " + smtInt(fr.Hi) + "))")
			fx.assumptionsUsed[fmt.Sprintf("fieldrange %s.%s in [%s, %s] (machine arithmetic on this counter treated as mathematical)", fr.Type, fr.Field, fr.Lo, fr.Hi)] = true
		}
	}
}

func smtInt(s string) string {
	if strings.HasPrefix(s, "-") {
		return "(- " + s[1:] + ")"
	}
	return s
}

func (fx *fnExec) execBinOp(st *state, x *ssa.BinOp) {
	a := fx.operand(st, x.X)
	b := fx.operand(st, x.Y)
	if a.addr != nil || b.addr != nil {
		fx.fail("binary op on address values")
	}
	s := fx.d.SortOf(x.X.Type())
	rs := fx.d.SortOf(x.Type())
	var t string
	switch x.Op {
	case token.EQL, token.NEQ:
		if s == "Slice" {
			// only comparison with nil is legal
			other := a
			if a.isNilC {
				other = b
			}
			t = "(= (sl_arr " + other.term + ") 0)"
		} else {
			t = "(= " + a.term + " " + b.term + ")"
		}
		if x.Op == token.NEQ {
			t = not(t)
		}
	case token.LSS, token.LEQ, token.GTR, token.GEQ:
		switch s {
		case "Int", "Real":
			t = "(" + x.Op.String() + " " + a.term + " " + b.term + ")"
		case "(_ BitVec 64)":
			op := map[token.Token]string{token.LSS: "bvult", token.LEQ: "bvule", token.GTR: "bvugt", token.GEQ: "bvuge"}[x.Op]
			t = "(" + op + " " + a.term + " " + b.term + ")"
		default:
			// string ordering: uninterpreted
			t = fx.fresh("cmp", "Bool")
		}
	case token.ADD, token.SUB, token.MUL:
		switch s {
		case "Int":
			op := map[token.Token]string{token.ADD: "+", token.SUB: "-", token.MUL: "*"}[x.Op]
			t = "(" + op + " " + a.term + " " + b.term + ")"
			if lo, hi, ok := intRange(x.Type()); ok {
				_, c1 := x.X.(*ssa.Const)
				_, c2 := x.Y.(*ssa.Const)
				if !(c1 && c2) {
					fx.safetyObl("overflow", x, x.Pos(), "arith", "(and (<= "+lo+" "+t+") (<= "+t+" "+hi+"))")
				}
			}
		case "Str":
			if x.Op != token.ADD {
				fx.fail("string op")
			}
			t = "(scat " + a.term + " " + b.term + ")"
		case "(_ BitVec 64)":
			op := map[token.Token]string{token.ADD: "bvadd", token.SUB: "bvsub", token.MUL: "bvmul"}[x.Op]
			t = "(" + op + " " + a.term + " " + b.term + ")"
		case "Real":
			op := map[token.Token]string{token.ADD: "+", token.SUB: "-", token.MUL: "*"}[x.Op]
			t = "(" + op + " " + a.term + " " + b.term + ")"
		default:
			fx.fail("arith on sort %s", s)
		}
	case token.QUO, token.REM:
		if s != "Int" {
			fx.fail("div on sort %s", s)
		}
		fx.safetyObl("div", x, x.Pos(), "div", "(not (= "+b.term+" 0))")
		// Go truncated division; only used with positive operands in scope: model with SMT div/mod under assumption
		if x.Op == token.QUO {
			t = "(div " + a.term + " " + b.term + ")"
		} else {
			t = "(mod " + a.term + " " + b.term + ")"
		}
	case token.AND, token.OR, token.XOR, token.AND_NOT, token.SHL, token.SHR:
		if s == "Bool" {
			fx.fail("bitop on bool")
		}
		if s != "(_ BitVec 64)" {
			fx.fail("bit operation on non-uint64 (%s) unsupported", x.X.Type())
		}
		bt := b.term
		if fx.d.SortOf(x.Y.Type()) != "(_ BitVec 64)" {
			fx.fail("shift amount must be uint64-typed")
		}
		op := map[token.Token]string{token.AND: "bvand", token.OR: "bvor", token.XOR: "bvxor", token.SHL: "bvshl", token.SHR: "bvlshr"}[x.Op]
		if x.Op == token.AND_NOT {
			t = "(bvand " + a.term + " (bvnot " + bt + "))"
		} else {
			t = "(" + op + " " + a.term + " " + bt + ")"
		}
	default:
		fx.fail("unsupported binary op %s", x.Op)
	}
	fx.vals[x] = val{term: fx.define(fx.vname(x), rs, t), typ: x.Type()}
}

func (fx *fnExec) execSlice(st *state, x *ssa.Slice) {
	o := fx.operand(st, x.X)
	lo := "0"
	if x.Low != nil {
		lo = fx.termOf(st, x.Low)
	}
	switch u := x.X.Type().Underlying().(type) {
	case *types.Basic: // string
		hi := "(slen " + o.term + ")"
		if x.High != nil {
			hi = fx.termOf(st, x.High)
		}
		fx.safetyObl("bounds", x, x.Pos(), "slice", "(and (<= 0 "+lo+") (<= "+lo+" "+hi+") (<= "+hi+" (slen "+o.term+")))")
		fx.vals[x] = val{term: fx.define(fx.vname(x), "Str", "(ssub "+o.term+" "+lo+" "+hi+")"), typ: x.Type()}
	case *types.Slice:
		hi := "(sl_len " + o.term + ")"
		if x.High != nil {
			hi = fx.termOf(st, x.High)
		}
		if x.Max != nil {
			fx.fail("3-index slice unsupported")
		}
		fx.safetyObl("bounds", x, x.Pos(), "slice", "(and (<= 0 "+lo+") (<= "+lo+" "+hi+") (<= "+hi+" (sl_cap "+o.term+")))")
		t := fmt.Sprintf("(mk_slice (sl_arr %s) (+ (sl_off %s) %s) (- %s %s) (- (sl_cap %s) %s))", o.term, o.term, lo, hi, lo, o.term, lo)
		fx.vals[x] = val{term: fx.define(fx.vname(x), "Slice", t), typ: x.Type()}
	case *types.Pointer:
		at := u.Elem().Underlying().(*types.Array)
		hi := fmt.Sprint(at.Len())
		if x.High != nil {
			hi = fx.termOf(st, x.High)
		}
		if x.Low != nil || x.High != nil {
			fx.safetyObl("bounds", x, x.Pos(), "slice", fmt.Sprintf("(and (<= 0 %s) (<= %s %s) (<= %s %d))", lo, lo, hi, hi, at.Len()))
		}
		t := fmt.Sprintf("(mk_slice %s %s (- %s %s) (- %d %s))", o.term, lo, hi, lo, at.Len(), lo)
		cl := 0
		if x.Low == nil && x.High == nil {
			cl = int(at.Len())
		}
		fx.vals[x] = val{term: fx.define(fx.vname(x), "Slice", t), typ: x.Type(), constLen: cl}
	default:
		fx.fail("slice of %s", x.X.Type())
	}
}

func (fx *fnExec) execConvert(st *state, x *ssa.Convert) {
	o := fx.operand(st, x.X)
	from := fx.d.SortOf(x.X.Type())
	to := fx.d.SortOf(x.Type())
	switch {
	case from == "Int" && to == "Int":
		flo, fhi, _ := intRange(x.X.Type())
		tlo, thi, ok := intRange(x.Type())
		if ok && (flo != tlo || fhi != thi) && !widens(x.X.Type(), x.Type()) {
			r := fx.fresh(fx.vname(x), "Int")
			fx.assume("(and (<= " + tlo + " " + r + ") (<= " + r + " " + thi + "))")
			fx.assume("(=> (and (<= " + tlo + " " + o.term + ") (<= " + o.term + " " + thi + ")) (= " + r + " " + o.term + "))")
			fx.vals[x] = val{term: r, typ: x.Type()}
			return
		}
		fx.vals[x] = val{term: o.term, typ: x.Type()}
	case from == to && from != "Slice":
		fx.vals[x] = val{term: o.term, typ: x.Type()}
	default:
		// string <-> []byte etc: fresh value of target sort
		r := fx.fresh(fx.vname(x), to)
		fx.assume(fx.wellTyped(r, x.Type(), st.alloc))
		fx.vals[x] = val{term: r, typ: x.Type()}
	}
}

func widens(from, to types.Type) bool {
	fb, ok1 := from.Underlying().(*types.Basic)
	tb, ok2 := to.Underlying().(*types.Basic)
	if !ok1 || !ok2 {
		return false
	}
	size := func(b *types.Basic) (int, bool) {
		switch b.Kind() {
		case types.Int8:
			return 8, true
		case types.Int16:
			return 16, true
		case types.Int32:
			return 32, true
		case types.Int, types.Int64:
			return 64, true
		case types.Uint8:
			return 8, false
		case types.Uint16:
			return 16, false
		case types.Uint32:
			return 32, false
		case types.Uint, types.Uintptr:
			return 64, false
		}
		return 0, true
	}
	fs, fsg := size(fb)
	ts, tsg := size(tb)
	if fsg == tsg {
		return ts >= fs
	}
	if !fsg && tsg {
		return ts > fs
	}
	return false
}

func (fx *fnExec) implPred(t types.Type) string {
	name := "impl_" + typeKey(t)
	if !fx.ufSeen[name] {
		fx.ufSeen[name] = true
		fx.declLines = append(fx.declLines, "(declare-fun "+name+" (Iface) Bool)")
		fx.declLines = append(fx.declLines, "(assert (not ("+name+" iface_nil)))")
	}
	return name
}

func (fx *fnExec) execTypeAssert(st *state, x *ssa.TypeAssert) {
	o := fx.operand(st, x.X)
	var ok, v string
	if types.IsInterface(x.AssertedType) {
		iface := x.AssertedType.Underlying().(*types.Interface)
		if iface.NumMethods() == 0 {
			ok = "(not (= " + o.term + " iface_nil))"
		} else {
			ok = "(" + fx.implPred(x.AssertedType) + " " + o.term + ")"
			// statically known dynamic types could be resolved here; keep uninterpreted
		}
		v = o.term
	} else {
		id := fx.d.TypeID(x.AssertedType)
		_, ub := fx.d.Box(x.AssertedType)
		ok = fmt.Sprintf("(= (typeof %s) %d)", o.term, id)
		v = "(" + ub + " " + o.term + ")"
	}
	okT := fx.define(fx.vname(x)+"!ok", "Bool", ok)
	if x.CommaOk {
		vT := fx.define(fx.vname(x)+"!v", fx.d.SortOf(x.AssertedType), "(ite "+okT+" "+v+" "+fx.d.Zero(x.AssertedType)+")")
		fx.assume(fx.wellTyped(vT, x.AssertedType, st.alloc))
		fx.vals[x] = val{tuple: []val{{term: vT, typ: x.AssertedType}, {term: okT, typ: tBool}}, typ: x.Type()}
		fx.anchorGhostSets(st, x, map[string]sval{"res0": {term: vT, typ: x.AssertedType, sort: fx.d.SortOf(x.AssertedType)}, "res1": {term: okT, typ: tBool, sort: "Bool"}, "arg0": fx.toSval(o)})
		return
	}
	fx.safetyObl("typeassert", x, x.Pos(), "typeassert", okT)
	vT := fx.define(fx.vname(x), fx.d.SortOf(x.AssertedType), v)
	fx.assume(fx.wellTyped(vT, x.AssertedType, st.alloc))
	fx.vals[x] = val{term: vT, typ: x.Type()}
}

func (fx *fnExec) execReturn(st *state, x *ssa.Return) {
	if fx.inl != nil {
		var rs []val
		for _, r := range x.Results {
			rs = append(rs, fx.operand(st, r))
		}
		fx.inl.rets = append(fx.inl.rets, inlineRet{cond: fx.reach[fx.ck], st: st.clone(), results: rs})
		return
	}
	fx.anchorAsserts(st, x, nil)
	names := map[string]sval{}
	for k, v := range fx.params {
		names[k] = v
	}
	sig := fx.fn.Signature
	for i, r := range x.Results {
		v := fx.toSval(fx.operand(st, r))
		names[fmt.Sprintf("result%d", i)] = v
		if len(x.Results) == 1 {
			names["result"] = v
		}
		if n := sig.Results().At(i).Name(); n != "" && n != "_" {
			if _, clash := names[n]; !clash {
				names[n] = v
			}
		}
	}
	c := &specCtx{fx: fx, cur: st, old: fx.entry, names: names, pkg: fx.pkg}
	// locals that dominate the return (in particular addr_x of a heap-allocated local) may be named
	c.locals = fx.localLookup(st, x.Block())
	for _, e := range fx.ct.Ensures {
		v, ok := fx.tryEval(c, e.Expr, "ensures ["+e.Label+"]")
		if !ok {
			continue
		}
		fx.addObl("ensures", e.Label, fx.clauseProps(e, fx.funProps()), v.term, x.Pos(), e.Src)
	}
	// ghost frame: ghosts changed must be in modifies
	for g := range st.ghost {
		if st.ghost[g] == fx.ghostGet(fx.entry, g) {
			continue
		}
		allowed := false
		for _, l := range fx.modLocs {
			if l.ghost == g {
				allowed = true
			}
		}
		if !allowed {
			fx.addObl("assigns", "ghost["+g+"]", fx.allProps(), "(= "+st.ghost[g]+" "+fx.ghostGet(fx.entry, g)+")", x.Pos(), "ghost "+g+" not in modifies")
		}
	}
	fx.objInvAtReturn(st, x)
	fx.nreturns++
	// vacuity canary: this return point must be reachable under all assumptions made on the way
	// (a contradictory assumed contract or invariant would make every obligation here hold vacuously)
	vo := fx.addObl("vacuity", fmt.Sprintf("return#%d", fx.nreturns), fx.allProps(), "false", x.Pos(), "return point reachable (assumptions consistent)")
	vo.Canary = true
}

func (fx *fnExec) finishReturns() {
	// contract clauses anchored at a site that does not exist (or is unreachable) in the current source:
	// not fatal for the other obligations of the function, but the function is not counted as verified.
	for _, a := range fx.ct.Asserts {
		if !fx.usedAnchors[a] {
			fx.warnings = append(fx.warnings, fmt.Sprintf("%s: assert [%s] anchored at %s: no such site (or unreachable)", fx.fn.String(), a.Label, a.Anchor))
		}
	}
	for _, a := range fx.ct.Hypotheses {
		if !fx.usedAnchors[a] {
			fx.warnings = append(fx.warnings, fmt.Sprintf("%s: hypothesis [%s] anchored at %s: no such site (or unreachable)", fx.fn.String(), a.Label, a.Anchor))
		}
	}
	for _, a := range fx.ct.Joins {
		if !fx.usedAnchors[a] {
			fx.warnings = append(fx.warnings, fmt.Sprintf("%s: join anchored at %s: no such site (or unreachable)", fx.fn.String(), a.Anchor))
		}
	}
	for _, a := range fx.ct.GhostSets {
		if !fx.usedAnchors[a] {
			fx.warnings = append(fx.warnings, fmt.Sprintf("%s: ghostset %s anchored at %s: no such site (or unreachable)", fx.fn.String(), a.Target, a.Anchor))
		}
	}
}

// anchorHypotheses: side conditions taken from the property statement itself (not from the code),
// assumed at a named point and listed in the evidence.
func (fx *fnExec) anchorHypotheses(st *state, in ssa.Instruction, name string, extra map[string]sval) {
	for _, a := range fx.ct.Hypotheses {
		if a.Anchor != name {
			continue
		}
		fx.usedAnchors[a] = true
		c := &specCtx{fx: fx, cur: st, old: fx.entry, names: fx.params, pkg: fx.pkg}
		c = c.with(extra)
		c.locals = fx.localLookup(st, in.Block())
		v := c.eval(a.Expr)
		fx.assume(v.term)
		fx.assumptionsUsed[hypothesisText(a.Label, fx.g.relKey(fx.fn), a.Src)] = true
	}
}

// hypothesisText: how an assumed clause is listed in the evidence. Labels starting with "model-" are
// assumed models of library behaviour (e.g. bytes.Buffer content); all others are side conditions
// taken from the property statement.
func hypothesisText(label, fn, src string) string {
	if strings.HasPrefix(label, "model-") {
		return fmt.Sprintf("hypothesis [%s] of %s (assumed model of a library call, not checked): %s", label, fn, src)
	}
	return fmt.Sprintf("hypothesis [%s] of %s (side condition of the property statement): %s", label, fn, src)
}

// fieldDelta: stores to a field declared `fielddelta T.f g` add (new - old) to g[object].
func (fx *fnExec) fieldDelta(st *state, addrV ssa.Value, a *addr, newTerm string) {
	fa, ok := addrV.(*ssa.FieldAddr)
	if !ok || len(fx.g.cs.FieldDelta) == 0 {
		return
	}
	stT := deref(fa.X.Type())
	n := namedOf(stT)
	if n == nil || n.Obj().Pkg() == nil {
		return
	}
	fname := structOf(stT).Field(fa.Field).Name()
	for _, fd := range fx.g.cs.FieldDelta {
		if fd.Type != n.Obj().Name() || fd.Field != fname || fd.Pkg != n.Obj().Pkg().Path() {
			continue
		}
		o := fx.operand(st, fa.X)
		if o.addr != nil {
			return
		}
		g := fx.g.cs.Ghosts[fd.Ghost]
		if g == nil {
			fx.fail("fielddelta names unknown ghost %s", fd.Ghost)
		}
		old := fx.loadAddr(st, a)
		cur := fx.ghostGet(st, fd.Ghost)
		n2 := fx.fresh("G_"+fd.Ghost, ghostSort(g.Sort))
		fx.assert(fmt.Sprintf("(= %s (store %s %s (+ (select %s %s) (- %s %s))))", n2, cur, o.term, cur, o.term, newTerm, old))
		st.ghost[fd.Ghost] = n2
	}
}
