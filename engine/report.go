package main

import (
	"encoding/json"
	"fmt"
	"os"
	"path/filepath"
	"regexp"
	"sort"
	"strings"
)

type knownFinding struct {
	Property   string `json:"property"`
	Obligation string `json:"obligation"`
	What       string `json:"what"`
	Witness    string `json:"witness,omitempty"`
	Status     string `json:"status"` // known | fixed
	Commit     string `json:"commit,omitempty"`
}

type baselineFile struct {
	Obligations map[string][]string `json:"obligations"` // property -> names
	// parameter names (receiver first) of every function under contract when the baseline was written:
	// a contract written for parameter r still resolves after the parameter was renamed
	Signatures map[string][]string `json:"signatures,omitempty"`
	// field names of every struct type of the module when the baseline was written: a field added later is
	// mentioned by no contract, so a store to it cannot be judged by any frame clause written before
	Fields map[string][]string `json:"fields,omitempty"`
}

// oldSigs: signatures recorded in the baseline (loaded by main); curSigs: signatures of this tree.
var oldSigs = map[string][]string{}
var curSigs = map[string][]string{}
var oldFields = map[string][]string{}
var curFields = map[string][]string{}

func loadJSON(path string, v interface{}) bool {
	b, err := os.ReadFile(path)
	if err != nil {
		return false
	}
	return json.Unmarshal(b, v) == nil
}

func report(cfg *runCfg, g *Gen, results []*fnResult, obls []*Obligation, engineErrors int, tLoad, tGen, tSolve, wall float64) int {
	var known []knownFinding
	loadJSON(filepath.Join(cfg.verif, "known_findings.json"), &known)
	var base baselineFile
	hasBase := loadJSON(filepath.Join(cfg.verif, "spec", "baseline_obligations.json"), &base)
	inBase := map[string]bool{}
	if hasBase {
		for _, n := range base.Obligations[cfg.prop] {
			inBase[n] = true
			// a callee precondition is the same obligation at whichever call site it arises:
			// compare "requires" obligations modulo the call-site ordinal
			inBase[normRequires(n)] = true
			// the frame clause (modifies) of a function and a field-protocol declaration are each one
			// clause, whichever store or load instantiates them: compared modulo the instruction
			inBase[normClause(n)] = true
			if i := strings.Index(n, ":"); i > 0 {
				inBase[n[:i]+":assigns"] = true
			}
		}
	}
	isKnown := func(name string) *knownFinding {
		for i := range known {
			if known[i].Status == "known" && known[i].Obligation == name && (cfg.prop == "" || known[i].Property == cfg.prop) {
				return &known[i]
			}
		}
		return nil
	}

	var failed, undecided, discharged, canaryBad []*Obligation
	bySolver := map[string]int{}
	solverTime := 0.0
	nobl := 0
	for _, o := range obls {
		solverTime += o.TimeS
		if o.Canary {
			// must be sat or unknown
			if o.Status == "unsat" {
				canaryBad = append(canaryBad, o)
			}
			continue
		}
		nobl++
		switch o.Status {
		case "unsat":
			discharged = append(discharged, o)
			bySolver[o.Solver]++
		case "sat":
			failed = append(failed, o)
		case "disagree":
			fmt.Fprintf(os.Stderr, "ENGINE-ERROR: solvers disagree on %s (%s)\n", o.Name, o.Solver)
			engineErrors++
		default:
			undecided = append(undecided, o)
		}
	}
	if cfg.verbose || cfg.prop == "" {
		for _, o := range obls {
			mark := "ok  "
			if o.Status != "unsat" {
				mark = "FAIL"
			}
			if o.Canary {
				mark = "cnry"
			}
			fmt.Printf("%s %-8s %-7s %6.2fs %s  [%s]\n", mark, o.Status, shortSolver(o.Solver), o.TimeS, o.Name, strings.Join(o.Props, ","))
		}
	}
	for _, o := range canaryBad {
		fmt.Fprintf(os.Stderr, "ENGINE-ERROR: vacuity: %s is unsat (contradictory preconditions or axioms)\n", o.Name)
		engineErrors++
	}

	violations := 0
	exit := 0
	var lines []string
	replayDir := filepath.Join(cfg.out, "replays", cfg.prop)
	report1 := func(o *Obligation, decided bool) {
		if kf := isKnown(o.Name); kf != nil {
			lines = append(lines, fmt.Sprintf("KNOWN-FINDING: property=%s %s (%s)", cfg.prop, kf.What, o.Name))
			return
		}
		tainted := (o.fx != nil && o.fx.taintedBy != "") || o.NewField
		if !decided && hasBase && (tainted || (!inBase[o.Name] && !(o.Kind == "requires" && inBase[normRequires(o.Name)]) && !inBase[normClause(o.Name)])) {
			// a new obligation that no solver decided: undecided, and a violation only when a
			// counterexample search yields an input that fails on the real code
			os.MkdirAll(replayDir, 0o755)
			path, confirmed := writeReplay(cfg, g, o, replayDir)
			if confirmed {
				violations++
				lines = append(lines, fmt.Sprintf("VIOLATION property=%s replay=%s", cfg.prop, path))
				exit = 1
				return
			}
			os.Remove(path)
			why := "not in baseline"
			if o.NewField {
				why = "a store to a struct field that did not exist when the contracts were written"
			} else if tainted {
				why = "the function calls " + o.fx.taintedBy + ", about which nothing is known"
			}
			fmt.Fprintf(os.Stderr, "UNDECIDED: %s status=%s (%s, no failing input reproduced; no violation claimed)\n", o.Name, o.Status, why)
			return
		}
		violations++
		os.MkdirAll(replayDir, 0o755)
		path, confirmed := writeReplay(cfg, g, o, replayDir)
		suffix := ""
		if !confirmed {
			suffix = " no-failing-input-found"
		}
		lines = append(lines, fmt.Sprintf("VIOLATION property=%s replay=%s%s", cfg.prop, path, suffix))
		exit = 1
	}
	for _, o := range failed {
		report1(o, true)
	}
	for _, o := range undecided {
		report1(o, false)
	}
	// clauses that could not even be generated on this tree (engine errors: a name or an anchor site is
	// gone) are undecided like any new obligation: the property-level drivers get a chance to produce a
	// failing run of the real code; only that makes a VIOLATION
	if exit == 0 && engineErrors > 0 && cfg.prop != "" && os.Getenv("VERIF_NO_REPLAY") == "" {
		pseudo := &Obligation{Name: "clauses-not-generated", Kind: "engine", Status: "undecided", Src: "one or more clauses of the contracts no longer resolve on this tree (see ENGINE-ERROR lines)"}
		os.MkdirAll(replayDir, 0o755)
		var confirmed bool
		var rep string
		switch cfg.prop {
		case "C05", "C06", "C09":
			confirmed, rep = idlSearch(cfg, pseudo, replayDir)
		case "C07":
			confirmed, rep = generatorBounded(cfg, pseudo, replayDir)
		default:
			confirmed, rep = varlinkE2E(cfg, pseudo, replayDir)
		}
		if confirmed {
			path := filepath.Join(replayDir, "clauses_not_generated.txt")
			os.WriteFile(path, []byte("obligation: clauses-not-generated\nkind: engine\nclause: "+pseudo.Src+"\nstatus: undecided\n\n"+rep), 0o644)
			violations++
			lines = append(lines, fmt.Sprintf("VIOLATION property=%s replay=%s", cfg.prop, path))
			exit = 1
		}
	}
	for _, l := range lines {
		fmt.Println(l)
	}
	fmt.Fprintf(os.Stderr, "govc: prop=%s functions=%d obligations=%d discharged=%d failed=%d undecided=%d engine-errors=%d load=%.1fs gen=%.1fs solve=%.1fs\n",
		cfg.prop, len(results), nobl, len(discharged), len(failed), len(undecided), engineErrors, tLoad, tGen, tSolve)
	for _, o := range failed {
		fmt.Fprintf(os.Stderr, "  FAILED %s (%s) %s\n", o.Name, o.Pos, o.Src)
	}
	for _, o := range undecided {
		fmt.Fprintf(os.Stderr, "  UNDECIDED %s status=%s (%s)\n", o.Name, o.Status, o.Pos)
	}
	if cfg.prop != "" {
		writeEvidence(cfg, g, results, obls, discharged, failed, undecided, bySolver, solverTime, wall, violations, engineErrors)
	}
	if engineErrors > 0 && exit == 0 {
		return 2
	}
	if nobl == 0 && exit == 0 {
		fmt.Fprintf(os.Stderr, "ENGINE-ERROR: zero obligations for %s\n", cfg.prop)
		return 2
	}
	return exit
}

func shortSolver(s string) string {
	if len(s) > 7 {
		return s[:7]
	}
	return s
}

func writeEvidence(cfg *runCfg, g *Gen, results []*fnResult, obls, discharged, failed, undecided []*Obligation, bySolver map[string]int, solverTime, wall float64, violations, engineErrors int) {
	assump := map[string]bool{}
	var fns []string
	for _, r := range results {
		fns = append(fns, r.key)
		if r.fx != nil {
			for a := range r.fx.assumptionsUsed {
				assump[a] = true
			}
		}
	}
	for _, a := range g.cs.Assumptions {
		assump[a] = true
	}
	assump["integers are mathematical; every + - * on a Go integer carries a no-overflow obligation"] = true
	assump["len of any string or slice <= 2^48"] = true
	assump["strings are an uninterpreted sort (slen/sat/ssub) without extensionality: may add spurious counterexamples, never spurious proofs"] = true
	assump["goroutine interleavings are not explored; go/select/channel operations are ghost events"] = true
	assump["go/ssa (x/tools v0.29.0) builder, this engine's encoding and the SMT solvers are trusted"] = true
	var as []string
	for a := range assump {
		as = append(as, a)
	}
	sort.Strings(as)
	var samples []map[string]interface{}
	for i, o := range obls {
		if i%maxInt(1, len(obls)/12) == 0 || o.Status != "unsat" {
			samples = append(samples, map[string]interface{}{"obligation": o.Name, "kind": o.Kind, "status": o.Status, "solver": o.Solver, "time_s": round3(o.TimeS), "source": o.Src, "pos": o.Pos})
		}
		if len(samples) > 40 {
			break
		}
	}
	var slow []map[string]interface{}
	so := append([]*Obligation{}, obls...)
	sort.Slice(so, func(i, j int) bool { return so[i].TimeS > so[j].TimeS })
	for i := 0; i < len(so) && i < 5; i++ {
		slow = append(slow, map[string]interface{}{"obligation": so[i].Name, "time_s": round3(so[i].TimeS)})
	}
	ncanary := 0
	for _, o := range obls {
		if o.Canary {
			ncanary++
		}
	}
	var und []string
	for _, o := range undecided {
		und = append(und, o.Name+" ("+o.Status+")")
	}
	var fl []string
	for _, o := range failed {
		fl = append(fl, o.Name)
	}
	nobl := len(discharged) + len(failed) + len(undecided)
	cov := map[string]interface{}{
		"obligations":              nobl,
		"discharged":               len(discharged),
		"checker_cmd":              fmt.Sprintf("/verif/bin/govc -prop %s -tier %s (VC generation over go/ssa of /repo's working tree; one SMT-LIB file per obligation part; z3-new 5.1.0 -> z3 4.8.12 -> cvc5 1.0.3, %ds/query)", cfg.prop, cfg.tier, cfg.timeoutS),
		"trusted_base":             as,
		"functions_under_contract": fns,
		"by_solver":                bySolver,
		"solver_time_s":            round3(solverTime),
		"slowest":                  slow,
		"samples":                  samples,
		"vacuity_canaries":         ncanary,
		"failed":                   fl,
		"undecided":                und,
		"engine_errors":            engineErrors,
	}
	ev := map[string]interface{}{
		"property_id": cfg.prop,
		"tier":        cfg.tier,
		"seed":        cfg.seed,
		"level":       "proof",
		"coverage":    cov,
		"assumptions": as,
		"wall_s":      round3(wall),
		"violations":  violations,
	}
	b, _ := json.MarshalIndent(ev, "", " ")
	os.MkdirAll(filepath.Join(cfg.out, "evidence"), 0o755)
	os.WriteFile(filepath.Join(cfg.out, "evidence", cfg.prop+".json"), b, 0o644)
}

func round3(f float64) float64 { return float64(int(f*1000+0.5)) / 1000 }
func maxInt(a, b int) int {
	if a > b {
		return a
	}
	return b
}

// writeReplay writes a replay file naming the failed obligation with the solver output.
// Confirmation by running the counterexample on the real code is attempted by replay.go.
func writeReplay(cfg *runCfg, g *Gen, o *Obligation, dir string) (string, bool) {
	name := sanitize(o.Name)
	if len(name) > 120 {
		name = name[:120]
	}
	path := filepath.Join(dir, name+".txt")
	var b strings.Builder
	fmt.Fprintf(&b, "obligation: %s\nkind: %s\nfunction: %s\nposition: %s\nclause: %s\nstatus: %s (solver %s)\n\n", o.Name, o.Kind, o.Fn, o.Pos, o.Src, o.Status, o.Solver)
	confirmed, rep := tryReplay(cfg, g, o, dir)
	b.WriteString(rep)
	b.WriteString("\n--- solver output ---\n")
	b.WriteString(firstLines(o.Output, 200))
	os.WriteFile(path, []byte(b.String()), 0o644)
	return path, confirmed
}

// writeBaseline records, per property, the names of the obligations discharged on the current tree.
func writeBaseline(cfg *runCfg, obls []*Obligation, engineErrors int) int {
	if engineErrors > 0 {
		fmt.Fprintf(os.Stderr, "ENGINE-ERROR: baseline not written (%d engine errors)\n", engineErrors)
		return 2
	}
	out := baselineFile{Obligations: map[string][]string{}, Signatures: curSigs, Fields: curFields}
	bad := 0
	for _, o := range obls {
		if o.Canary {
			continue
		}
		if o.Status != "unsat" {
			fmt.Fprintf(os.Stderr, "not discharged: %s (%s)\n", o.Name, o.Status)
			bad++
			continue
		}
		for _, p := range o.Props {
			out.Obligations[p] = append(out.Obligations[p], o.Name)
		}
	}
	// clauses that exist by declaration even when no instruction instantiates them on this tree
	for _, c := range declaredClauses {
		for _, p := range c.props {
			out.Obligations[p] = append(out.Obligations[p], c.name)
		}
	}
	for p := range out.Obligations {
		sort.Strings(out.Obligations[p])
	}
	b, _ := json.MarshalIndent(out, "", " ")
	os.WriteFile(filepath.Join(cfg.verif, "spec", "baseline_obligations.json"), b, 0o644)
	fmt.Fprintf(os.Stderr, "baseline written: %d obligations, %d not discharged (omitted)\n", len(obls), bad)
	return 0
}

var reCallOrd = regexp.MustCompile(`#\d+:`)

// normRequires drops the call-site ordinal of a requires obligation name.
// normClause maps an instance of a per-function or per-declaration clause to the clause:
// F:assigns:<loc>#k -> F:assigns ; F:proto:store(f)#k:label -> proto:store(f):label.
func normClause(n string) string {
	if i := strings.Index(n, ":assigns:"); i > 0 {
		return n[:i] + ":assigns"
	}
	if i := strings.Index(n, ":proto:"); i > 0 {
		return reCallOrd.ReplaceAllString(n[i+1:], ":")
	}
	return n
}

// declaredClauses: filled by main from the contract set (one default field-protocol clause per type).
var declaredClauses []struct {
	name  string
	props []string
}

func normRequires(n string) string {
	if !strings.Contains(n, ":requires:") {
		return n
	}
	return reCallOrd.ReplaceAllString(n, "#*:")
}
