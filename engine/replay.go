package main

import (
	"sync"
	"bytes"
	"encoding/json"
	"fmt"
	"go/types"
	"os"
	"os/exec"
	"path/filepath"
	"strconv"
	"strings"
)

// cexValues asks the solvers for a model of the failing part and returns the values of the given terms.
// The query drops the quantified string axioms that block model construction; the result is a candidate
// which only counts once it is confirmed by running the real code.
func cexValues(o *Obligation, part int, terms []string, hints []string, dir string) (map[string]string, string) {
	if part < 0 || part >= len(o.Parts) {
		part = 0
	}
	for _, mode := range []string{"lite", "noquant"} {
		extra := append([]string{}, hints...)
		q := o.queryTextOpt(part, false, extra, true)
		if mode == "noquant" {
			var keep []string
			for _, l := range strings.Split(q, "\n") {
				if strings.Contains(l, "(forall ") || strings.Contains(l, "(exists ") || l == "(check-sat)" {
					continue
				}
				keep = append(keep, l)
			}
			for _, t := range terms {
				if strings.HasPrefix(t, "(sat ") {
					keep = append(keep, "(assert (and (<= 0 "+t+") (<= "+t+" 255)))")
				}
				if strings.HasPrefix(t, "(slen ") {
					keep = append(keep, "(assert (<= 0 "+t+"))")
				}
			}
			keep = append(keep, "(check-sat)")
			q = strings.Join(keep, "\n") + "\n"
		}
		q += "(get-value (" + strings.Join(terms, " ") + "))\n"
		file := filepath.Join(dir, "cex_"+sanitizeFile(o.Name)+".smt2")
		os.WriteFile(file, []byte(q), 0o644)
		tmo := 5
		for _, s := range []string{"z3-new", "z3"} {
			st, out, _ := runSolver(s, tmo, file)
			if st != "sat" {
				continue
			}
			i := strings.Index(out, "\n")
			vals := parseGetValue(out[i+1:], terms)
			if vals != nil {
				os.Remove(file)
				return vals, out
			}
		}
		os.Remove(file)
	}
	return nil, ""
}

// parseGetValue parses "((t v) (t v) ...)" in order of terms.
func parseGetValue(s string, terms []string) map[string]string {
	toks := sexpTokens(s)
	pos := 0
	var parse func() interface{}
	parse = func() interface{} {
		if pos >= len(toks) {
			return nil
		}
		t := toks[pos]
		pos++
		if t == "(" {
			var l []interface{}
			for pos < len(toks) && toks[pos] != ")" {
				l = append(l, parse())
			}
			pos++
			return l
		}
		return t
	}
	top, ok := parse().([]interface{})
	if !ok || len(top) != len(terms) {
		return nil
	}
	out := map[string]string{}
	for i, p := range top {
		pair, ok := p.([]interface{})
		if !ok || len(pair) != 2 {
			return nil
		}
		out[terms[i]] = sexpString(pair[1])
	}
	return out
}

func sexpTokens(s string) []string {
	var out []string
	i := 0
	for i < len(s) {
		c := s[i]
		switch {
		case c == '(' || c == ')':
			out = append(out, string(c))
			i++
		case c == ' ' || c == '\n' || c == '\t' || c == '\r':
			i++
		case c == '|':
			j := i + 1
			for j < len(s) && s[j] != '|' {
				j++
			}
			out = append(out, s[i:j+1])
			i = j + 1
		case c == '"':
			j := i + 1
			for j < len(s) && s[j] != '"' {
				j++
			}
			out = append(out, s[i:j+1])
			i = j + 1
		default:
			j := i
			for j < len(s) && !strings.ContainsRune("() \n\t\r", rune(s[j])) {
				j++
			}
			out = append(out, s[i:j])
			i = j
		}
	}
	return out
}

func sexpString(v interface{}) string {
	switch x := v.(type) {
	case string:
		return x
	case []interface{}:
		var ps []string
		for _, e := range x {
			ps = append(ps, sexpString(e))
		}
		return "(" + strings.Join(ps, " ") + ")"
	}
	return ""
}

func smtIntVal(s string) (int, bool) {
	s = strings.TrimSpace(s)
	if strings.HasPrefix(s, "(- ") {
		n, err := strconv.Atoi(strings.TrimSuffix(strings.TrimPrefix(s, "(- "), ")"))
		return -n, err == nil
	}
	n, err := strconv.Atoi(s)
	return n, err == nil
}

// modelString materialises a Str term from the model: length (hinted small) and bytes.
func modelString(o *Obligation, part int, strTerm string, extraTerms []string, dir string, seed int) (string, map[string]string, string, bool) {
	for _, bound := range []int{8, 24, 64} {
		terms := []string{"(slen " + strTerm + ")"}
		for i := 0; i < bound; i++ {
			terms = append(terms, fmt.Sprintf("(sat %s %d)", strTerm, i))
		}
		terms = append(terms, extraTerms...)
		vals, out := cexValues(o, part, terms, []string{fmt.Sprintf("(assert (<= (slen %s) %d))", strTerm, bound)}, dir)
		if vals == nil {
			continue
		}
		n, ok := smtIntVal(vals[terms[0]])
		if !ok || n < 0 || n > bound {
			continue
		}
		b := make([]byte, n)
		for i := 0; i < n; i++ {
			v, ok := smtIntVal(vals[terms[1+i]])
			if !ok || v < 0 || v > 255 {
				v = int('a') + (seed+i)%26
			}
			b[i] = byte(v)
		}
		return string(b), vals, out, true
	}
	return "", nil, "", false
}

func tryReplay(cfg *runCfg, g *Gen, o *Obligation, dir string) (bool, string) {
	if os.Getenv("VERIF_NO_REPLAY") != "" {
		return false, "replay: disabled\n"
	}
	if o.fx != nil && o.fx.sweep {
		// a swept function was analysed under no precondition: a state that makes it fail need not be
		// reachable, so only a failing run found at the level of the property counts
		switch g.pkgShort(o.fx.fn) {
		case "idl":
			if cfg.prop == "C05" || cfg.prop == "C06" || cfg.prop == "C09" {
				return idlSearch(cfg, o, dir)
			}
			return false, "replay: swept function; no property-level driver for this property\n"
		case "varlink", "ctxio":
			return varlinkE2E(cfg, o, dir)
		case "generator":
			return generatorBounded(cfg, o, dir)
		}
		return false, "replay: swept function; no property-level driver\n"
	}
	switch g.pkgShort(o.fx.fn) {
	case "idl":
		return replayIDL(cfg, g, o, dir)
	case "varlink":
		ok, rep := replayVarlink(cfg, g, o, dir)
		if ok {
			return ok, rep
		}
		ok2, rep2 := varlinkE2E(cfg, o, dir)
		return ok2, rep + rep2
	case "ctxio":
		return varlinkE2E(cfg, o, dir)
	case "generator":
		return generatorBounded(cfg, o, dir)
	}
	return false, "replay: no replay template for this function; no concrete failing input reproduced on the real code\n"
}

// replayIDL: first the solver's model (and its neighbourhood) against the failed function's own
// contract; when that reproduces nothing and the property is one of the parser's input/output
// properties, a seeded bounded search over grammar-conformant descriptions and their single-edit
// mutations, judged at idl.New by an oracle written from the property statements.
func replayIDL(cfg *runCfg, g *Gen, o *Obligation, dir string) (bool, string) {
	ok, rep := replayIDLModel(cfg, g, o, dir)
	if ok || (cfg.prop != "C05" && cfg.prop != "C06" && cfg.prop != "C09") {
		return ok, rep
	}
	ok2, rep2 := idlSearch(cfg, o, dir)
	return ok2, rep + rep2
}

var idlSearchCache struct {
	sync.Mutex
	done bool
	ok   bool
	rep  string
}

func idlSearch(cfg *runCfg, o *Obligation, dir string) (bool, string) {
	idlSearchCache.Lock()
	defer idlSearchCache.Unlock()
	if idlSearchCache.done {
		return idlSearchCache.ok, idlSearchCache.rep
	}
	idlSearchCache.done = true
	tmpl, err := os.ReadFile(filepath.Join(cfg.verif, "replay_templates", "idl_roundtrip_test.go.tmpl"))
	if err != nil {
		idlSearchCache.rep = "search: template missing\n"
		return false, idlSearchCache.rep
	}
	n := "1500"
	if cfg.tier == "thorough" {
		n = "15000"
	}
	src := strings.NewReplacer("@@OBLIGATION@@", o.Name, "@@SEED@@", strconv.Itoa(cfg.seed+1), "@@N@@", n).Replace(string(tmpl))
	testFile := filepath.Join(dir, "idl_search_"+cfg.prop+"_test.go")
	os.WriteFile(testFile, []byte(src), 0o644)
	out, rerr := runOverlayTest(cfg, "varlink/idl", testFile, "TestVerifReplay", false)
	var rep strings.Builder
	fmt.Fprintf(&rep, "property-level search (not derived from this obligation's model): grammar-conformant descriptions and single-edit mutations through the real idl.New, seed %d, %s base descriptions\nsearch test: %s\n", cfg.seed+1, n, testFile)
	for _, l := range strings.Split(out, "\n") {
		if strings.HasPrefix(l, "REPLAY-FAIL") {
			idlSearchCache.ok = true
			rep.WriteString(l + "\n")
		}
		if strings.HasPrefix(l, "REPLAY-DONE") {
			rep.WriteString(l + "\n")
		}
	}
	if !idlSearchCache.ok {
		if rerr != nil {
			fmt.Fprintf(&rep, "search run: %v\n%s\n", rerr, firstLines(out, 20))
		}
		rep.WriteString("search: no failing input found\n")
	}
	idlSearchCache.rep = rep.String()
	return idlSearchCache.ok, idlSearchCache.rep
}

var genCache struct {
	sync.Mutex
	done bool
	ok   bool
	rep  string
}

// generatorBounded: property-level fallback for the generator: the bounded C07 driver (real
// generateTemplate on the bounded family of descriptions, panics recovered, output type-checked).
func generatorBounded(cfg *runCfg, o *Obligation, dir string) (bool, string) {
	genCache.Lock()
	defer genCache.Unlock()
	if genCache.done {
		return genCache.ok, genCache.rep
	}
	genCache.done = true
	tmp, err := os.MkdirTemp("", "govc-gen")
	if err != nil {
		return false, "search: cannot create scratch directory\n"
	}
	defer os.RemoveAll(tmp)
	cmd := exec.Command(filepath.Join(cfg.verif, "bounded", "c07", "run.sh"), "quick", cfg.repo)
	cmd.Env = append(os.Environ(), "VERIF_OUT="+tmp)
	cmd.CombinedOutput()
	b, _ := os.ReadFile(filepath.Join(tmp, "replays", "C07", "bounded_typecheck_failures.txt"))
	var rep strings.Builder
	rep.WriteString("property-level search (not derived from this obligation's model): the bounded C07 driver - real generateTemplate on the bounded family of descriptions, panics recovered, output type-checked\n")
	for _, l := range strings.Split(string(b), "\n") {
		if strings.HasPrefix(l, "BOUNDED-FAIL") {
			genCache.ok = true
			if len(l) > 600 {
				l = l[:600] + "..."
			}
			rep.WriteString("REPLAY-FAIL " + l + "\n")
		}
	}
	if !genCache.ok {
		rep.WriteString("search: no failing description found\n")
	}
	genCache.rep = rep.String()
	return genCache.ok, genCache.rep
}

var e2eCache struct {
	sync.Mutex
	done bool
	out  string
	err  error
	file string
}

// varlinkE2E: property-level fallback for packages varlink and ctxio: a fixed family of end-to-end
// scenarios through the real service loop and the real client, judged by oracles written from the
// property statements; only lines for the property under check count.
func varlinkE2E(cfg *runCfg, o *Obligation, dir string) (bool, string) {
	e2eCache.Lock()
	defer e2eCache.Unlock()
	if !e2eCache.done {
		e2eCache.done = true
		name := "varlink_e2e_test.go.tmpl"
		race := false
		switch cfg.prop {
		case "C16":
			// concurrent use of the service API and of client connections under the race detector
			name = "varlink_race_test.go.tmpl"
			race = true
		case "C20":
			// socket-activation environments (the test binary re-executes itself with inherited descriptors)
			name = "varlink_activation_test.go.tmpl"
		case "C14", "C15", "C17", "C18", "C19":
			// lifecycle / cancellation / address scenarios (oracles from C14, C15, C17, C18, C19)
			name = "varlink_lifecycle_test.go.tmpl"
		}
		tmpl, err := os.ReadFile(filepath.Join(cfg.verif, "replay_templates", name))
		if err != nil {
			e2eCache.err = err
		} else {
			src := strings.NewReplacer("@@OBLIGATION@@", o.Name).Replace(string(tmpl))
			e2eCache.file = filepath.Join(dir, "varlink_e2e_"+cfg.prop+"_test.go")
			os.WriteFile(e2eCache.file, []byte(src), 0o644)
			e2eCache.out, e2eCache.err = runOverlayTest(cfg, "varlink", e2eCache.file, "TestVerifReplay", race)
			if race {
				// a report of the race detector is the failing run; keep the first library frames of each
				var b strings.Builder
				blocks := strings.Split(e2eCache.out, "WARNING: DATA RACE")
				for i, blk := range blocks[1:] {
					if i >= 3 {
						break
					}
					var frames []string
					for _, l := range strings.Split(blk, "\n") {
						l = strings.TrimSpace(l)
						if strings.HasPrefix(l, "github.com/varlink/go/varlink") && len(frames) < 2 {
							frames = append(frames, l)
						}
					}
					fmt.Fprintf(&b, "REPLAY-FAIL prop=C16 scenario=race-detector: DATA RACE between %s\n", strings.Join(frames, " and "))
				}
				e2eCache.out = b.String() + e2eCache.out
			}
		}
	}
	var rep strings.Builder
	fmt.Fprintf(&rep, "property-level scenarios (not derived from this obligation's model): real service and real client over unix sockets / pipes, oracles written from the property statements (C01-C04, C10-C13 request/reply scenarios; C14, C15, C17, C18, C19 lifecycle scenarios)\nscenario test: %s\n", e2eCache.file)
	confirmed := false
	for _, l := range strings.Split(e2eCache.out, "\n") {
		if strings.HasPrefix(l, "REPLAY-FAIL prop="+cfg.prop+" ") {
			confirmed = true
			rep.WriteString(l + "\n")
		}
		if strings.HasPrefix(l, "REPLAY-DONE") {
			rep.WriteString(l + "\n")
		}
	}
	if !confirmed && !strings.Contains(e2eCache.out, "REPLAY-DONE") {
		// the scenario binary died: an unrecovered panic in a library goroutine is itself a run of the
		// real code that contradicts "the service survives" (C10) / "the client returns an error" (C11)
		if i := strings.Index(e2eCache.out, "\npanic: "); i >= 0 {
			tail := e2eCache.out[i+1:]
			first := strings.SplitN(tail, "\n", 2)[0]
			inService := strings.Contains(tail, ".handleConnection") || strings.Contains(tail, ".HandleMessage")
			inClient := strings.Contains(tail, "varlink.(*Connection)")
			if (cfg.prop == "C10" && inService) || (cfg.prop == "C11" && inClient && !inService) {
				confirmed = true
				where := ""
				for _, l := range strings.Split(tail, "\n") {
					if strings.Contains(l, "/varlink/") && strings.Contains(l, ".go:") && !strings.Contains(l, "_test.go") {
						where = strings.TrimSpace(l)
						break
					}
				}
				fmt.Fprintf(&rep, "REPLAY-FAIL prop=%s scenario=crash: the scenario run died in library code: %s at %s\n", cfg.prop, first, where)
			}
		}
	}
	if !confirmed {
		if e2eCache.err != nil && !strings.Contains(e2eCache.out, "REPLAY-DONE") {
			fmt.Fprintf(&rep, "scenario run: %v\n%s\n", e2eCache.err, firstLines(e2eCache.out, 20))
		}
		rep.WriteString("scenarios: no run contradicting " + cfg.prop + " found\n")
	}
	return confirmed, rep.String()
}

func replayIDLModel(cfg *runCfg, g *Gen, o *Obligation, dir string) (bool, string) {
	fx := o.fx
	fn := fx.fn
	var rep strings.Builder
	isMethod := fn.Signature.Recv() != nil
	var strTerm string
	var extra []string
	if isMethod {
		if len(fn.Params) == 0 {
			return false, "replay: unsupported receiver\n"
		}
		pt, ok := fn.Params[0].Type().Underlying().(*types.Pointer)
		if !ok || namedOf(pt.Elem()) == nil || namedOf(pt.Elem()).Obj().Name() != "parser" {
			return false, "replay: unsupported receiver\n"
		}
		arr, srt := fx.fieldArr(pt.Elem(), fieldIndex(structOf(pt.Elem()), "input"))
		h := fx.heapGet(fx.entry, arr, srt)
		strTerm = "(select " + h + " p!" + fn.Params[0].Name() + ")"
		parr, psrt := fx.fieldArr(pt.Elem(), fieldIndex(structOf(pt.Elem()), "position"))
		extra = append(extra, "(select "+fx.heapGet(fx.entry, parr, psrt)+" p!"+fn.Params[0].Name()+")")
	} else if fn.Name() == "New" {
		strTerm = "p!" + fn.Params[0].Name()
	} else {
		return false, "replay: unsupported function\n"
	}
	part := o.FailPart
	s, vals, solverOut, ok := modelString(o, part, strTerm, extra, dir, cfg.seed)
	if !ok {
		// try the other parts
		for p := range o.Parts {
			if p == part {
				continue
			}
			s, vals, solverOut, ok = modelString(o, p, strTerm, extra, dir, cfg.seed)
			if ok {
				break
			}
		}
	}
	if !ok {
		return false, "replay: the solvers produced no model for the failing obligation (quantified goal); no concrete input to run\n"
	}
	k0 := 0
	if len(extra) > 0 {
		k0, _ = smtIntVal(vals[extra[0]])
	}
	fmt.Fprintf(&rep, "solver candidate: input=%q entry-position=%d\n", s, k0)
	_ = solverOut

	// build the test
	names := map[string]string{}
	var call, resDecl string
	sig := fn.Signature
	var args []string
	if isMethod {
		names[fn.Params[0].Name()] = "p"
		for _, prm := range fn.Params[1:] {
			switch {
			case strings.HasSuffix(prm.Type().String(), "idl.IDL"):
				args = append(args, "&IDL{}")
			default:
				return false, "replay: unsupported parameter type " + prm.Type().String() + "\n"
			}
			names[prm.Name()] = args[len(args)-1]
		}
		call = "p." + fn.Name() + "(" + strings.Join(args, ", ") + ")"
	} else {
		names[fn.Params[0].Name()] = "c.s"
		call = "New(c.s)"
	}
	var resNames []string
	for i := 0; i < sig.Results().Len(); i++ {
		if sig.Results().Len() == 1 {
			resNames = append(resNames, "result")
			names["result"] = "result"
			names["result0"] = "result"
		} else {
			rn := fmt.Sprintf("result%d", i)
			resNames = append(resNames, rn)
			names[rn] = rn
		}
	}
	if len(resNames) > 0 {
		resDecl = strings.Join(resNames, ", ") + " := "
	}
	gc := newGoCompiler(g.cs, names)
	var reqs []string
	for _, r := range fx.ct.Requires {
		t, err := gc.compile(r.Expr)
		if err != nil {
			return false, "replay: " + err.Error() + "\n"
		}
		reqs = append(reqs, t)
	}
	type ens struct{ label, code string }
	var enss []ens
	safety := hasProp(fx.tags.safety, cfg.prop)
	for _, e := range fx.ct.Ensures {
		props := fx.clauseProps(e, fx.funProps())
		if cfg.prop != "" && !hasProp(props, cfg.prop) {
			continue
		}
		t, err := gc.compile(e.Expr)
		if err != nil {
			fmt.Fprintf(&rep, "replay: clause [%s] not replayable: %v\n", e.Label, err)
			continue
		}
		enss = append(enss, ens{e.Label, t})
	}
	var tb strings.Builder
	tb.WriteString("package idl\n\nimport (\n\t\"fmt\"\n\t\"testing\"\n)\n\n")
	tb.WriteString("// Generated by /verif/engine: replay of a solver counterexample for obligation\n// " + o.Name + "\n")
	tb.WriteString("func TestVerifReplay(t *testing.T) {\n")
	fmt.Fprintf(&tb, "\tmodel := %q\n\tk0 := %d\n", s, k0)
	tb.WriteString("\ttype cand struct { s string; k int }\n\tvar cands []cand\n\tseen := map[cand]bool{}\n")
	tb.WriteString("\tadd := func(s string, k int) { c := cand{s, k}; if !seen[c] { seen[c] = true; cands = append(cands, c) } }\n")
	tb.WriteString("\tadd(model, k0)\n\tfor k := 0; k <= len(model); k++ { add(model, k) }\n")
	tb.WriteString("\tfor n := 0; n <= len(model); n++ { for k := 0; k <= n; k++ { add(model[:n], k); add(model[n:], 0) } }\n")
	tb.WriteString("\tfails := 0\n\tfor _, c := range cands {\n\t\tif fails >= 3 { break }\n\t\tfunc() {\n")
	if isMethod {
		tb.WriteString("\t\t\tp := &parser{input: c.s, position: c.k}\n\t\t\t_ = p\n")
	} else {
		tb.WriteString("\t\t\tif c.k != 0 { return }\n")
	}
	if len(reqs) > 0 {
		tb.WriteString("\t\t\tif !func() (ok bool) { defer func() { if recover() != nil { ok = false } }(); return " + strings.Join(reqs, " && ") + " }() { return }\n")
	}
	for i, oe := range gc.olds {
		fmt.Fprintf(&tb, "\t\t\told_%d := %s\n\t\t\t_ = old_%d\n", i, oe, i)
	}
	if safety {
		tb.WriteString("\t\t\tdefer func() { if r := recover(); r != nil { fails++; fmt.Printf(\"REPLAY-FAIL kind=panic input=%q position=%d panic=%v\\n\", c.s, c.k, r) } }()\n")
	} else {
		tb.WriteString("\t\t\tdefer func() { recover() }()\n")
	}
	tb.WriteString("\t\t\t" + resDecl + call + "\n")
	for _, rn := range resNames {
		tb.WriteString("\t\t\t_ = " + rn + "\n")
	}
	for _, e := range enss {
		fmt.Fprintf(&tb, "\t\t\tif !func() (ok bool) { defer func() { if recover() != nil { ok = false } }(); return %s }() { fails++; fmt.Printf(\"REPLAY-FAIL kind=ensures[%s] input=%%q position=%%d\\n\", c.s, c.k) }\n", e.code, e.label)
	}
	tb.WriteString("\t\t}()\n\t}\n\tfmt.Printf(\"REPLAY-DONE candidates=%d fails=%d\\n\", len(cands), fails)\n}\n")

	testFile := filepath.Join(dir, sanitizeFile(o.Name)+"_test.go")
	os.WriteFile(testFile, []byte(tb.String()), 0o644)
	out, err := runOverlayTest(cfg, "varlink/idl", testFile, "TestVerifReplay", false)
	fmt.Fprintf(&rep, "replay test: %s\n", testFile)
	confirmed := false
	for _, l := range strings.Split(out, "\n") {
		if strings.HasPrefix(l, "REPLAY-FAIL") {
			confirmed = true
			rep.WriteString(l + "\n")
		}
		if strings.HasPrefix(l, "REPLAY-DONE") {
			rep.WriteString(l + "\n")
		}
	}
	if !confirmed {
		if err != nil {
			fmt.Fprintf(&rep, "replay run: %v\n%s\n", err, firstLines(out, 30))
		}
		rep.WriteString("replay: the candidate (and its neighbourhood) did not fail on the real code\n")
	}
	return confirmed, rep.String()
}

func sanitizeFile(s string) string {
	s = sanitize(s)
	if len(s) > 100 {
		s = s[:100]
	}
	return s
}

// runOverlayTest injects testFile into pkgDir (relative to the repo) with go test -overlay and runs it.
func runOverlayTest(cfg *runCfg, pkgDir, testFile, run string, race bool) (string, error) {
	target := filepath.Join(cfg.repo, pkgDir, "zz_verif_replay_test.go")
	ov := map[string]map[string]string{"Replace": {target: testFile}}
	b, _ := json.Marshal(ov)
	ovFile := testFile + ".overlay.json"
	os.WriteFile(ovFile, b, 0o644)
	defer os.Remove(ovFile)
	args := []string{"test", "-overlay=" + ovFile, "-v", "-vet=off", "-count=1", "-timeout", "60s", "-run", "^" + run + "$"}
	if race {
		args = append(args, "-race")
	}
	args = append(args, "./"+pkgDir)
	cmd := exec.Command("go", args...)
	cmd.Dir = cfg.repo
	cmd.Env = append(os.Environ(), "GOFLAGS=-mod=mod", "GOPROXY=off", "GOSUMDB=off", "GOTOOLCHAIN=local")
	var buf bytes.Buffer
	cmd.Stdout = &buf
	cmd.Stderr = &buf
	err := cmd.Run()
	return buf.String(), err
}

// replayVarlink: routing / error-reply obligations of the service side are replayed through the real
// HandleMessage / ReplyError with recording fakes and an oracle written from the property statements.
func replayVarlink(cfg *runCfg, g *Gen, o *Obligation, dir string) (bool, string) {
	fx := o.fx
	key := g.relKey(fx.fn)
	kind, strTerm := "", ""
	part := o.FailPart
	if part < 0 || part >= len(o.Parts) {
		part = 0
	}
	switch key {
	case "(*Service).HandleMessage":
		kind = "handle"
		if t, ok := o.Parts[part].ghost["gMethod"]; ok {
			strTerm = t
		}
	case "(*Call).ReplyError":
		kind = "replyerror"
		strTerm = "p!name"
	case "(*Service).orgvarlinkserviceDispatch":
		kind = "handle"
		strTerm = "p!methodname"
	default:
		return false, "replay: no replay template for this function; no concrete failing input reproduced on the real code\n"
	}
	var rep strings.Builder
	model := "a.b"
	if strTerm != "" {
		if s, _, _, ok := modelString(o, part, strTerm, nil, dir, cfg.seed); ok {
			model = s
		}
	}
	if key == "(*Service).orgvarlinkserviceDispatch" {
		model = "org.varlink.service." + model
	}
	fmt.Fprintf(&rep, "solver candidate: %q\n", model)
	tmpl, err := os.ReadFile(filepath.Join(cfg.verif, "replay_templates", "varlink_routing_test.go.tmpl"))
	if err != nil {
		return false, "replay: template missing\n"
	}
	src := strings.NewReplacer("@@OBLIGATION@@", o.Name, "@@MODEL@@", strconv.Quote(model), "@@KIND@@", strconv.Quote(kind)).Replace(string(tmpl))
	testFile := filepath.Join(dir, sanitizeFile(o.Name)+"_test.go")
	os.WriteFile(testFile, []byte(src), 0o644)
	out, rerr := runOverlayTest(cfg, "varlink", testFile, "TestVerifReplay", false)
	fmt.Fprintf(&rep, "replay test: %s\n", testFile)
	confirmed := false
	for _, l := range strings.Split(out, "\n") {
		if strings.HasPrefix(l, "REPLAY-FAIL") {
			confirmed = true
			rep.WriteString(l + "\n")
		}
		if strings.HasPrefix(l, "REPLAY-DONE") {
			rep.WriteString(l + "\n")
		}
	}
	if !confirmed {
		if rerr != nil {
			fmt.Fprintf(&rep, "replay run: %v\n%s\n", rerr, firstLines(out, 20))
		}
		rep.WriteString("replay: the candidate (and its neighbourhood) did not fail on the real code\n")
	}
	return confirmed, rep.String()
}
