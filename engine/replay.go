package main

func tryReplay(cfg *runCfg, g *Gen, o *Obligation, dir string) (bool, string) {
	return false, "replay: no concrete failing input reproduced on the real code for this obligation\n"
}
