package main

// Spec expression language: Go expression syntax plus
//   a ==> b, a <==> b, forall x T, y T :: e, exists x T :: e, old(e), cond ? a : b
// Own Pratt parser so quantifiers and implications may appear anywhere.

import (
	"fmt"
	"strconv"
	"strings"
)

type Expr interface{ String() string }

type (
	EIdent  struct{ Name string }
	EInt    struct{ V string }
	EStr    struct{ V string }
	EBool   struct{ V bool }
	ENil    struct{}
	EUnary  struct {
		Op string
		X  Expr
	}
	EBinary struct {
		Op   string
		X, Y Expr
	}
	ECall struct {
		Fn   string
		Args []Expr
	}
	EField struct {
		X    Expr
		Name string
	}
	EIndex struct{ X, I Expr }
	ESlice struct{ X, Lo, Hi Expr }
	EQuant struct {
		Forall   bool
		Vars     []QVar
		Body     Expr
		Triggers []Expr
	}
	EIte  struct{ C, A, B Expr }
	EStar struct{ X Expr } // *x
)

type QVar struct{ Name, Type string }

func (e *EIdent) String() string  { return e.Name }
func (e *EInt) String() string    { return e.V }
func (e *EStr) String() string    { return strconv.Quote(e.V) }
func (e *EBool) String() string   { return fmt.Sprint(e.V) }
func (e *ENil) String() string    { return "nil" }
func (e *EUnary) String() string  { return e.Op + e.X.String() }
func (e *EBinary) String() string { return "(" + e.X.String() + " " + e.Op + " " + e.Y.String() + ")" }
func (e *ECall) String() string {
	var a []string
	for _, x := range e.Args {
		a = append(a, x.String())
	}
	return e.Fn + "(" + strings.Join(a, ", ") + ")"
}
func (e *EField) String() string { return e.X.String() + "." + e.Name }
func (e *EIndex) String() string { return e.X.String() + "[" + e.I.String() + "]" }
func (e *ESlice) String() string {
	lo, hi := "", ""
	if e.Lo != nil {
		lo = e.Lo.String()
	}
	if e.Hi != nil {
		hi = e.Hi.String()
	}
	return e.X.String() + "[" + lo + ":" + hi + "]"
}
func (e *EQuant) String() string {
	k := "exists"
	if e.Forall {
		k = "forall"
	}
	var vs []string
	for _, v := range e.Vars {
		vs = append(vs, v.Name+" "+v.Type)
	}
	return "(" + k + " " + strings.Join(vs, ", ") + " :: " + e.Body.String() + ")"
}
func (e *EIte) String() string  { return "(" + e.C.String() + " ? " + e.A.String() + " : " + e.B.String() + ")" }
func (e *EStar) String() string { return "*" + e.X.String() }

type etoken struct {
	kind string // ident int str char op eof
	text string
}

type lexer struct {
	src  string
	pos  int
	toks []etoken
}

var ops = []string{"{", "}", "<==>", "==>", "::", "&&", "||", "==", "!=", "<=", ">=", "<<", ">>", "&^", "+", "-", "*", "/", "%", "<", ">", "!", "(", ")", "[", "]", ",", ".", ":", "?", "&", "|", "^"}

func lex(src string) ([]etoken, error) {
	var out []etoken
	i := 0
	for i < len(src) {
		c := src[i]
		switch {
		case c == ' ' || c == '\t' || c == '\n' || c == '\r':
			i++
		case c >= '0' && c <= '9':
			j := i
			for j < len(src) && (src[j] >= '0' && src[j] <= '9' || src[j] == 'x' || src[j] >= 'a' && src[j] <= 'f' || src[j] >= 'A' && src[j] <= 'F' || src[j] == '_') {
				j++
			}
			out = append(out, etoken{"int", src[i:j]})
			i = j
		case c == '_' || c >= 'a' && c <= 'z' || c >= 'A' && c <= 'Z':
			j := i
			for j < len(src) && (src[j] == '_' || src[j] == '$' || src[j] >= 'a' && src[j] <= 'z' || src[j] >= 'A' && src[j] <= 'Z' || src[j] >= '0' && src[j] <= '9') {
				j++
			}
			out = append(out, etoken{"ident", src[i:j]})
			i = j
		case c == '"':
			j := i + 1
			for j < len(src) && src[j] != '"' {
				if src[j] == '\\' {
					j++
				}
				j++
			}
			if j >= len(src) {
				return nil, fmt.Errorf("unterminated string in %q", src)
			}
			s, err := strconv.Unquote(src[i : j+1])
			if err != nil {
				return nil, fmt.Errorf("bad string %s: %v", src[i:j+1], err)
			}
			out = append(out, etoken{"str", s})
			i = j + 1
		case c == '\'':
			j := i + 1
			for j < len(src) && src[j] != '\'' {
				if src[j] == '\\' {
					j++
				}
				j++
			}
			if j >= len(src) {
				return nil, fmt.Errorf("unterminated char in %q", src)
			}
			r, _, _, err := strconv.UnquoteChar(src[i+1:j], '\'')
			if err != nil {
				return nil, fmt.Errorf("bad char %s: %v", src[i:j+1], err)
			}
			out = append(out, etoken{"int", strconv.Itoa(int(r))})
			i = j + 1
		default:
			found := false
			for _, op := range ops {
				if strings.HasPrefix(src[i:], op) {
					out = append(out, etoken{"op", op})
					i += len(op)
					found = true
					break
				}
			}
			if !found {
				return nil, fmt.Errorf("bad character %q in %q", c, src)
			}
		}
	}
	out = append(out, etoken{"eof", ""})
	return out, nil
}

type eparser struct {
	toks []etoken
	p    int
	src  string
}

func ParseExpr(src string) (e Expr, err error) {
	toks, err := lex(src)
	if err != nil {
		return nil, err
	}
	ps := &eparser{toks: toks, src: src}
	defer func() {
		if r := recover(); r != nil {
			if pe, ok := r.(parseErr); ok {
				err = fmt.Errorf("%s in %q", string(pe), src)
				return
			}
			panic(r)
		}
	}()
	e = ps.expr(0)
	if ps.peek().kind != "eof" {
		ps.fail("trailing tokens at %q", ps.peek().text)
	}
	return e, nil
}

type parseErr string

func (ps *eparser) fail(f string, a ...interface{}) { panic(parseErr(fmt.Sprintf(f, a...))) }
func (ps *eparser) peek() etoken                     { return ps.toks[ps.p] }
func (ps *eparser) next() etoken                     { t := ps.toks[ps.p]; ps.p++; return t }
func (ps *eparser) isOp(s string) bool              { t := ps.peek(); return t.kind == "op" && t.text == s }
func (ps *eparser) expect(s string) {
	if !ps.isOp(s) {
		ps.fail("expected %q, got %q", s, ps.peek().text)
	}
	ps.p++
}

// precedence levels: 0 ?:, 1 <==>, 2 ==>, 3 ||, 4 &&, 5 cmp, 6 + - | ^, 7 * / % << >> & &^
func binPrec(op string) int {
	switch op {
	case "<==>":
		return 1
	case "==>":
		return 2
	case "||":
		return 3
	case "&&":
		return 4
	case "==", "!=", "<", "<=", ">", ">=":
		return 5
	case "+", "-", "|", "^":
		return 6
	case "*", "/", "%", "<<", ">>", "&", "&^":
		return 7
	}
	return -1
}

func (ps *eparser) expr(min int) Expr {
	lhs := ps.unary()
	for {
		t := ps.peek()
		if t.kind != "op" {
			break
		}
		if t.text == "?" && min <= 0 {
			ps.p++
			a := ps.expr(1)
			ps.expect(":")
			b := ps.expr(0)
			lhs = &EIte{lhs, a, b}
			continue
		}
		pr := binPrec(t.text)
		if pr < 0 || pr < min {
			break
		}
		ps.p++
		var rhs Expr
		if t.text == "==>" {
			rhs = ps.expr(pr) // right assoc
		} else {
			rhs = ps.expr(pr + 1)
		}
		lhs = &EBinary{t.text, lhs, rhs}
	}
	return lhs
}

func (ps *eparser) unary() Expr {
	t := ps.peek()
	if t.kind == "op" {
		switch t.text {
		case "!":
			ps.p++
			return &EUnary{"!", ps.unary()}
		case "-":
			ps.p++
			return &EUnary{"-", ps.unary()}
		case "*":
			ps.p++
			return &EStar{ps.unary()}
		}
	}
	if t.kind == "ident" && (t.text == "forall" || t.text == "exists") {
		ps.p++
		q := &EQuant{Forall: t.text == "forall"}
		for {
			var names []string
			n := ps.next()
			if n.kind != "ident" {
				ps.fail("quantifier variable expected")
			}
			names = append(names, n.text)
			for ps.isOp(",") {
				// either "i, j int" or "i int, j int"
				ps.p++
				n2 := ps.next()
				if n2.kind != "ident" {
					ps.fail("quantifier variable expected")
				}
				names = append(names, n2.text)
			}
			prefix := ""
			if ps.isOp("*") {
				ps.p++
				prefix = "*"
			}
			ty := ps.next()
			if ty.kind != "ident" {
				ps.fail("quantifier type expected")
			}
			for _, nm := range names {
				q.Vars = append(q.Vars, QVar{nm, prefix + ty.text})
			}
			if ps.isOp(",") {
				ps.p++
				continue
			}
			break
		}
		ps.expect("::")
		if ps.isOp("{") {
			ps.p++
			for !ps.isOp("}") {
				q.Triggers = append(q.Triggers, ps.expr(0))
				if ps.isOp(",") {
					ps.p++
				}
			}
			ps.expect("}")
		}
		q.Body = ps.expr(0)
		return q
	}
	return ps.postfix(ps.primary())
}

func (ps *eparser) primary() Expr {
	t := ps.next()
	switch t.kind {
	case "int":
		return &EInt{strings.ReplaceAll(t.text, "_", "")}
	case "str":
		return &EStr{t.text}
	case "ident":
		switch t.text {
		case "true":
			return &EBool{true}
		case "false":
			return &EBool{false}
		case "nil":
			return &ENil{}
		}
		return &EIdent{t.text}
	case "op":
		if t.text == "(" {
			e := ps.expr(0)
			ps.expect(")")
			return e
		}
	}
	ps.fail("unexpected token %q", t.text)
	return nil
}

func (ps *eparser) postfix(x Expr) Expr {
	for {
		switch {
		case ps.isOp("."):
			ps.p++
			n := ps.next()
			if n.kind != "ident" {
				ps.fail("field name expected")
			}
			x = &EField{x, n.text}
		case ps.isOp("("):
			ps.p++
			var args []Expr
			for !ps.isOp(")") {
				args = append(args, ps.expr(0))
				if ps.isOp(",") {
					ps.p++
				}
			}
			ps.expect(")")
			name := ""
			switch f := x.(type) {
			case *EIdent:
				name = f.Name
			case *EField:
				name = f.X.String() + "." + f.Name
			default:
				ps.fail("call of non-name")
			}
			x = &ECall{name, args}
		case ps.isOp("["):
			ps.p++
			var lo, hi Expr
			if ps.isOp(":") {
				ps.p++
				if !ps.isOp("]") {
					hi = ps.expr(0)
				}
				ps.expect("]")
				x = &ESlice{x, nil, hi}
				continue
			}
			lo = ps.expr(0)
			if ps.isOp(":") {
				ps.p++
				if !ps.isOp("]") {
					hi = ps.expr(0)
				}
				ps.expect("]")
				x = &ESlice{x, lo, hi}
				continue
			}
			ps.expect("]")
			x = &EIndex{x, lo}
		default:
			return x
		}
	}
}

// substitute identifiers (for pred inlining)
func substExpr(e Expr, m map[string]Expr) Expr {
	switch x := e.(type) {
	case nil:
		return nil
	case *EIdent:
		if r, ok := m[x.Name]; ok {
			return r
		}
		return x
	case *EUnary:
		return &EUnary{x.Op, substExpr(x.X, m)}
	case *EStar:
		return &EStar{substExpr(x.X, m)}
	case *EBinary:
		return &EBinary{x.Op, substExpr(x.X, m), substExpr(x.Y, m)}
	case *ECall:
		var a []Expr
		for _, y := range x.Args {
			a = append(a, substExpr(y, m))
		}
		return &ECall{x.Fn, a}
	case *EField:
		return &EField{substExpr(x.X, m), x.Name}
	case *EIndex:
		return &EIndex{substExpr(x.X, m), substExpr(x.I, m)}
	case *ESlice:
		var lo, hi Expr
		if x.Lo != nil {
			lo = substExpr(x.Lo, m)
		}
		if x.Hi != nil {
			hi = substExpr(x.Hi, m)
		}
		return &ESlice{substExpr(x.X, m), lo, hi}
	case *EQuant:
		m2 := map[string]Expr{}
		for k, v := range m {
			m2[k] = v
		}
		for _, v := range x.Vars {
			delete(m2, v.Name)
		}
		var ts []Expr
		for _, t := range x.Triggers {
			ts = append(ts, substExpr(t, m2))
		}
		return &EQuant{x.Forall, x.Vars, substExpr(x.Body, m2), ts}
	case *EIte:
		return &EIte{substExpr(x.C, m), substExpr(x.A, m), substExpr(x.B, m)}
	}
	return e
}
