package main

import (
	"flag"
	"fmt"
	"go/types"
	"os"
	"path/filepath"
	"regexp"
	"sort"
	"strings"
	"time"
)

type runCfg struct {
	prop     string
	tier     string
	repo     string
	verif    string
	fnRe     string
	dump     string
	verbose  bool
	seed     int
	workers  int
	timeoutS int
	all      bool
	out      string
}

func hasProp(ps []string, p string) bool {
	for _, x := range ps {
		if x == p {
			return true
		}
	}
	return false
}

func contractMentions(ct *Contract, prop string) bool {
	if hasProp(ct.Props, prop) || hasProp(ct.SafetyProps, prop) {
		return true
	}
	for _, cl := range ct.Requires {
		if hasProp(cl.Props, prop) {
			return true
		}
	}
	for _, cl := range ct.Ensures {
		if hasProp(cl.Props, prop) {
			return true
		}
	}
	for _, cl := range ct.Asserts {
		if hasProp(cl.Props, prop) {
			return true
		}
	}
	for _, ls := range ct.Loops {
		for _, cl := range ls.Invariants {
			if hasProp(cl.Props, prop) {
				return true
			}
		}
	}
	return false
}

func main() {
	var cfg runCfg
	flag.StringVar(&cfg.prop, "prop", "", "property id (empty: all obligations)")
	flag.StringVar(&cfg.tier, "tier", "quick", "quick|thorough")
	flag.StringVar(&cfg.repo, "repo", "/repo", "repository")
	flag.StringVar(&cfg.verif, "verif", "/verif", "verif dir")
	flag.StringVar(&cfg.out, "out", "", "directory for evidence/ and replays/ (default: the verif dir)")
	flag.StringVar(&cfg.fnRe, "fn", "", "only functions matching regexp (debug)")
	flag.StringVar(&cfg.dump, "dump", "", "keep SMT files in this directory")
	flag.BoolVar(&cfg.verbose, "v", false, "verbose")
	flag.IntVar(&cfg.seed, "seed", 0, "seed")
	flag.IntVar(&cfg.workers, "j", 16, "workers")
	flag.IntVar(&cfg.timeoutS, "timeout", 0, "per-query timeout seconds")
	mode := flag.String("mode", "check", "check|list|baseline")
	flag.Parse()
	if cfg.out == "" {
		cfg.out = cfg.verif
	}
	if cfg.timeoutS == 0 {
		cfg.timeoutS = 10
		if cfg.tier == "thorough" {
			cfg.timeoutS = 60
		}
	}
	if *mode == "solve-worker" {
		solveWorkerMain(cfg.timeoutS, cfg.tier == "thorough", cfg.workers)
		return
	}
	if s := os.Getenv("VERIF_SEED"); s != "" {
		fmt.Sscan(s, &cfg.seed)
	}
	code := run(&cfg, *mode)
	os.Exit(code)
}

type fnResult struct {
	key   string
	fx    *fnExec
	err   error
	obls  []*Obligation
	props []string
}

func run(cfg *runCfg, mode string) int {
	t0 := time.Now()
	cs := NewContractSet()
	specs, _ := filepath.Glob(filepath.Join(cfg.verif, "spec", "*.contracts"))
	sort.Strings(specs)
	for _, f := range specs {
		if err := cs.LoadContractFile(f, ""); err != nil {
			fmt.Fprintf(os.Stderr, "ENGINE-ERROR: %v\n", err)
			return 2
		}
	}
	for _, ct := range cs.Funcs {
		ct.Trusted = true
	}
	g, err := LoadGen(cfg.repo, cs)
	if err != nil {
		fmt.Fprintf(os.Stderr, "ENGINE-ERROR: load: %v\n", err)
		return 2
	}
	nfiles := 0
	for _, p := range g.pkgs {
		for _, f := range p.GoFiles {
			if filepath.Base(f) == "contracts_verif.go" {
				if err := cs.LoadContractFile(f, p.PkgPath); err != nil {
					fmt.Fprintf(os.Stderr, "ENGINE-ERROR: %v\n", err)
					return 2
				}
				nfiles++
			}
		}
	}
	if nfiles == 0 {
		fmt.Fprintf(os.Stderr, "ENGINE-ERROR: no contracts_verif.go files found under %s (build tag verif)\n", cfg.repo)
		return 2
	}
	tLoad := time.Since(t0).Seconds()

	var re *regexp.Regexp
	if cfg.fnRe != "" {
		re = regexp.MustCompile(cfg.fnRe)
	}
	var keys []string
	preErrors := 0
	for k, ct := range cs.Funcs {
		if ct.Pkg == "" || ct.Trusted {
			continue
		}
		if _, isIface := g.funcs[k]; !isIface {
			// contract on an interface method or unknown function
			if strings.HasPrefix(ct.Key, "(") && !strings.HasPrefix(ct.Key, "(*") && (g.lookupIface(ct) || ct.IfaceDecl) {
				continue
			}
			// only a run that checks a property this contract is tagged with is affected
			// an orphaned contract checks nothing and hides nothing: the function it was written for is
			// gone, whatever called it is checked against what is there now
			if cfg.prop == "" || contractMentions(ct, cfg.prop) {
				fmt.Fprintf(os.Stderr, "NOTE: contract for a function that no longer exists: %s (%s:%d)\n", k, ct.File, ct.Line)
			}
			continue
		}
		if cfg.prop != "" && !contractMentions(ct, cfg.prop) && !protoMentions(cs, ct.Pkg, cfg.prop) && !objInvMentions(cs, ct.Pkg, cfg.prop) {
			continue
		}
		if re != nil && !re.MatchString(ct.Key) {
			continue
		}
		keys = append(keys, k)
	}
	sort.Strings(keys)
	// signatures: of this tree (written into a new baseline) and of the baseline (for renamed parameters)
	for k, ct := range cs.Funcs {
		if ct.Pkg == "" || ct.Trusted {
			continue
		}
		if f, ok := g.funcs[k]; ok && f != nil {
			var ns []string
			for _, p := range f.Params {
				ns = append(ns, p.Name())
			}
			curSigs[f.String()] = ns
		}
	}
	for _, pkg := range g.allPkgs {
		if !strings.HasPrefix(pkg.Path(), modPath) {
			continue
		}
		for _, name := range pkg.Scope().Names() {
			if tn, ok := pkg.Scope().Lookup(name).(*types.TypeName); ok {
				if st, ok := tn.Type().Underlying().(*types.Struct); ok {
					var fs []string
					for i := 0; i < st.NumFields(); i++ {
						fs = append(fs, st.Field(i).Name())
					}
					curFields[pkg.Path()+"."+name] = fs
				}
			}
		}
	}
	if mode != "baseline" {
		var bf baselineFile
		if loadJSON(filepath.Join(cfg.verif, "spec", "baseline_obligations.json"), &bf) && bf.Signatures != nil {
			oldSigs = bf.Signatures
		}
		if bf.Fields != nil {
			oldFields = bf.Fields
		}
	}

	var results []*fnResult
	var allObls []*Obligation
	engineErrors := preErrors
	for _, k := range keys {
		fn := g.funcs[k]
		ct := cs.Funcs[k]
		fx := newFnExec(g, fn, ct)
		err := fx.run()
		r := &fnResult{key: k, fx: fx, err: err}
		results = append(results, r)
		if err != nil {
			// the function is not verified; obligations generated before the error are still checked
			fmt.Fprintf(os.Stderr, "ENGINE-ERROR: %v\n", err)
			engineErrors++
		}
		for _, w := range fx.warnings {
			fmt.Fprintf(os.Stderr, "ENGINE-ERROR: %s\n", w)
			engineErrors++
		}
		for _, o := range fx.obls {
			if cfg.prop == "" || hasProp(o.Props, cfg.prop) {
				r.obls = append(r.obls, o)
				allObls = append(allObls, o)
			}
		}
	}
	// zero-annotation sweep: functions of the module that have no contract and could not be executed in
	// place are analysed for crash-freedom under no precondition (loops without invariants: everything
	// they modify is havocked). Their obligations are new by construction: they can only become a
	// VIOLATION through a failing input reproduced on the real code.
	for i := 0; i < len(g.sweep) && i < 20; i++ {
		it := g.sweep[i]
		ct := &Contract{Key: g.relKey(it.fn), Pkg: g.fnPkgPath(it.fn), Props: nil, SafetyProps: it.props, Loops: map[int]*LoopSpec{}}
		fx := newFnExec(g, it.fn, ct)
		fx.sweep = true
		err := fx.run()
		k := "sweep:" + it.fn.String()
		r := &fnResult{key: k, fx: fx, err: err}
		results = append(results, r)
		if err != nil {
			fmt.Fprintf(os.Stderr, "NOTE: sweep of %s incomplete: %v\n", it.fn.String(), err)
		}
		for _, o := range fx.obls {
			if o.Canary {
				continue
			}
			if cfg.prop == "" || hasProp(o.Props, cfg.prop) {
				r.obls = append(r.obls, o)
				allObls = append(allObls, o)
			}
		}
	}
	tGen := time.Since(t0).Seconds() - tLoad

	if mode == "list" {
		for _, o := range allObls {
			fmt.Printf("%s\t%v\t%d parts\n", o.Name, o.Props, len(o.Parts))
		}
		return 0
	}

	dir := cfg.dump
	if dir == "" {
		base := os.Getenv("TMPDIR")
		if base == "" {
			base = "/var/tmp"
		}
		d, err := os.MkdirTemp(base, "govc-")
		if err != nil {
			fmt.Fprintf(os.Stderr, "ENGINE-ERROR: %v\n", err)
			return 2
		}
		dir = d
		defer os.RemoveAll(d)
	} else {
		os.MkdirAll(dir, 0o755)
	}
	scfg := &solveCfg{dir: dir, timeoutS: cfg.timeoutS, order: []string{"z3-new", "z3", "cvc5"}, all: cfg.tier == "thorough"}
	tS := time.Now()
	if err := solveAll(allObls, scfg, cfg.workers); err != nil {
		fmt.Fprintf(os.Stderr, "ENGINE-ERROR: %v\n", err)
		return 2
	}
	tSolve := time.Since(tS).Seconds()

	if mode == "baseline" {
		seenT := map[string]bool{}
		for _, fp := range g.cs.FieldProto {
			if seenT[fp.Type] {
				continue
			}
			seenT[fp.Type] = true
			props := fp.Props
			if len(props) == 0 {
				props = []string{"C16"}
			}
			declaredClauses = append(declaredClauses, struct {
				name  string
				props []string
			}{"proto:store(" + fp.Type + ".*):default", props})
		}
		return writeBaseline(cfg, allObls, engineErrors)
	}
	return report(cfg, g, results, allObls, engineErrors, tLoad, tGen, tSolve, time.Since(t0).Seconds())
}

func (g *Gen) lookupIface(ct *Contract) bool {
	// key like (ReadWriterContext).Write : a named interface type in the package
	k := ct.Key
	i := strings.Index(k, ").")
	if i < 0 {
		return false
	}
	tn := k[1:i]
	t := g.lookupType(ct.Pkg, tn)
	if t == nil {
		return false
	}
	_, ok := t.Underlying().(interface{ NumMethods() int })
	return ok
}

func protoMentions(cs *ContractSet, pkg, prop string) bool {
	for _, fp := range cs.FieldProto {
		if fp.Pkg == pkg && (hasProp(fp.Props, prop) || (len(fp.Props) == 0 && prop == "C16")) {
			return true
		}
	}
	return false
}

func objInvMentions(cs *ContractSet, pkg, prop string) bool {
	for _, oi := range cs.ObjInvs {
		if oi.Pkg == pkg && (hasProp(oi.Props, prop) || (len(oi.Props) == 0 && prop == "C07")) {
			return true
		}
	}
	return false
}
