#!/usr/bin/env python3
import json, sys
path, status, descs, tc, fails, depth, secs = sys.argv[1:8]
try:
    ev = json.load(open(path))
except Exception:
    sys.exit(0)
ev.setdefault("coverage", {})["bounded"] = {
    "label": "BOUNDED stand-in for the clause 'emitted file type-checks against the varlink package'; never counted in obligations/discharged",
    "status": status, "bound": "all type constructors to depth %s in alias / parameter / result / error-field position plus special cases (typeless and non-struct errors, '-' and upper case in the interface name, Go keywords as field names, backticks in comments, recursive aliases), plus collision probes: every package-level identifier the output derives from a member name that is itself a legal member name is added as a second member of each kind; for each description the package clause, VarlinkGetName() and VarlinkGetDescription() (constant-evaluated) are compared with the interface name and the description text" % depth,
    "descriptions": int(descs), "typechecked": int(tc), "failures": int(fails), "wall_s": float(secs or 0),
}
if int(fails) > 0:
    ev["violations"] = ev.get("violations", 0) + 1
json.dump(ev, open(path, "w"), indent=1)
