#!/bin/bash
# BOUNDED stand-in (never counted as proved) for the C07 clause "the emitted file type-checks":
# runs the real generateTemplate on a bounded-exhaustive family of descriptions and type-checks
# each output with go/types against /repo's current varlink package.
set -u
TIER="${1:-quick}"; REPO="${2:-/repo}"
HERE="$(cd "$(dirname "$0")" && pwd)"; VERIF="$(cd "$HERE/../.." && pwd)"; OUT="${VERIF_OUT:-$VERIF}"
export GOFLAGS=-mod=mod GOPROXY=off GOSUMDB=off GOTOOLCHAIN=local
DEPTH=1; [ "$TIER" = "thorough" ] && DEPTH=2
BASE="${TMPDIR:-/var/tmp}"; W=$(mktemp -d "$BASE/c07-XXXXXX"); trap 'rm -rf "$W"' EXIT
PKG="$REPO/cmd/varlink-go-interface-generator"
printf '{"Replace":{"%s/zz_bounded_test.go":"%s/bounded_test.go","%s/zz_shim_test.go":"%s/shim_test.go"}}' "$PKG" "$HERE" "$PKG" "$HERE" > "$W/ov.json"
t0=$(date +%s.%N)
(cd "$REPO" && VERIF_BOUNDED_DEPTH=$DEPTH go test -overlay="$W/ov.json" -vet=off -count=1 -v -timeout 600s -run '^TestVerifBoundedC07$' ./cmd/varlink-go-interface-generator) > "$W/out.txt" 2>&1
t1=$(date +%s.%N)
done_line=$(grep '^BOUNDED-DONE' "$W/out.txt" | head -1)
nfail=$(grep -c '^BOUNDED-FAIL' "$W/out.txt")
rc=0
if [ -z "$done_line" ] && grep -q '^BOUNDED-START' "$W/out.txt" && grep -q '^fatal error: \|^runtime: goroutine stack exceeds\|^panic: ' "$W/out.txt"; then
  # the generator process died on a description the parser accepts: that is the failing run
  last=$(grep '^BOUNDED-START' "$W/out.txt" | tail -1 | sed 's/^BOUNDED-START //')
  why=$(grep -m1 '^fatal error: \|^panic: ' "$W/out.txt")
  mkdir -p "$OUT/replays/C07"
  { echo "obligation: bounded stand-in for C07 (the generator terminates without crashing on every accepted description)"
    echo "BOUNDED-FAIL kind=process-died $last reason=\"$why\""
    echo "the real generateTemplate was running on that description when the test process died; first lines of the runtime's report:"
    grep -m1 -A12 '^fatal error: \|^runtime: goroutine stack exceeds\|^panic: ' "$W/out.txt"; } > "$OUT/replays/C07/bounded_typecheck_failures.txt"
  echo "VIOLATION property=C07 replay=$OUT/replays/C07/bounded_typecheck_failures.txt"
  python3 "$HERE/merge_evidence.py" "$OUT/evidence/C07.json" "generator process died" 0 0 1 "$DEPTH" 0
  exit 1
fi
if [ -z "$done_line" ]; then
  echo "ENGINE-ERROR: bounded C07 driver did not complete" >&2; tail -5 "$W/out.txt" >&2
  python3 "$HERE/merge_evidence.py" "$OUT/evidence/C07.json" "driver did not complete" 0 0 0 "$DEPTH" 0
  exit 0
fi
if [ "$nfail" -gt 0 ]; then
  mkdir -p "$OUT/replays/C07"
  cp "$W/out.txt" "$OUT/replays/C07/bounded_typecheck_failures.txt"
  echo "VIOLATION property=C07 replay=$OUT/replays/C07/bounded_typecheck_failures.txt"
  rc=1
fi
descs=$(echo "$done_line" | sed 's/.*descriptions=\([0-9]*\).*/\1/'); tc=$(echo "$done_line" | sed 's/.*typechecked=\([0-9]*\).*/\1/')
python3 "$HERE/merge_evidence.py" "$OUT/evidence/C07.json" "ok" "$descs" "$tc" "$nfail" "$DEPTH" "$(echo "$t1 - $t0" | bc)"
echo "bounded(C07): descriptions=$descs typechecked=$tc fails=$nfail depth=$DEPTH (bounded stand-in, not a proof)" >&2
exit $rc
