package main

// BOUNDED stand-in for the C07 clause "the emitted file compiles and type-checks against this
// repository's varlink package". No contract can express that clause, so it is checked by running the
// real generateTemplate on a bounded-exhaustive family of descriptions and type-checking each output
// with go/types. This is NOT a proof and is never counted among discharged obligations.

import (
	"fmt"
	"go/ast"
	"go/constant"
	"go/importer"
	"go/parser"
	"go/token"
	"go/types"
	"os"
	"strings"
	"testing"
)

func boundedTypes(depth int) []string {
	base := []string{"bool", "int", "float", "string", "object", "T", "(a, b)", "(x: int)", "()", "(x: int, y: ?string)"}
	if depth == 0 {
		return base
	}
	var out []string
	out = append(out, base...)
	for _, t := range boundedTypes(depth - 1) {
		out = append(out, "[]"+t, "[string]"+t)
		if !strings.HasPrefix(t, "?") {
			out = append(out, "?"+t)
		}
		out = append(out, "(f: "+t+")")
	}
	return out
}

func TestVerifBoundedC07(t *testing.T) {
	fset := token.NewFileSet()
	imp := importer.ForCompiler(fset, "source", nil)
	var descs []string
	depth := 2
	if os.Getenv("VERIF_BOUNDED_DEPTH") == "1" {
		depth = 1
	}
	ts := boundedTypes(depth)
	for _, ty := range ts {
		descs = append(descs,
			"interface org.example.b\ntype T (k: int)\ntype A "+ty+"\nmethod M() -> ()\n",
			"interface org.example.b\ntype T (k: int)\nmethod M(p: "+ty+") -> (q: "+ty+")\n",
			"interface org.example.b\ntype T (k: int)\nmethod M() -> ()\nerror E (p: "+ty+")\n",
		)
	}
	descs = append(descs,
		"interface org.example.b\nmethod M() -> ()\nerror E\n",
		"interface org.example.b\nmethod M() -> ()\nerror E (a, b)\n",
		"interface org.example.b\nmethod M() -> ()\nerror E int\n",
		"interface org.Example-dash.b9\nmethod M() -> ()\n",
		"interface xn--a.b\nmethod M() -> ()\n",
		"# a `backtick` comment\ninterface org.example.b\n# doc with ` tick\nmethod M(type: int, func: string) -> (go: bool)\n",
		"interface org.example.b\nmethod M(a: int) -> (a: int)\nmethod N(b: (c: (d: (e: int)))) -> ()\ntype U (v: ?[]?[string]?U)\n",
		"interface org.example.b\nmethod M() -> ()\nmethod N() -> ()\nmethod O() -> ()\nerror E1 ()\nerror E2 (a: int, b: string, c: float)\n",
	)
	// references between aliases in every order: backward, forward, mutual, self, through containers
	descs = append(descs,
		"interface org.example.b\ntype Leaf (x: int)\ntype Branch (leaf: Leaf)\nmethod M(b: Branch) -> (l: Leaf)\n",
		"interface org.example.b\ntype Branch (leaf: Leaf)\ntype Leaf (x: int)\nmethod M(b: Branch) -> (l: Leaf)\n",
		"interface org.example.b\ntype Tree (root: ?Node)\ntype Node (tree: ?Tree, kids: []Node)\nmethod M() -> (t: Tree)\n",
		"interface org.example.b\nmethod M(a: []Later, b: [string]Later) -> (c: ?Later)\nerror E (l: Later)\ntype Later (x: int)\n",
	)
	// deep nesting: 12 levels of anonymous structs in every position (indentation / recursion depth)
	deep := "int"
	for i := 0; i < 12; i++ {
		deep = "(n: " + deep + ")"
	}
	descs = append(descs,
		"interface org.example.b\ntype A "+deep+"\nmethod M() -> ()\n",
		"interface org.example.b\nmethod M(p: "+deep+") -> ()\n",
		"interface org.example.b\nmethod M() -> (q: "+deep+")\n",
		"interface org.example.b\nmethod M() -> ()\nerror E (p: "+deep+")\n",
		"interface org.example.b\nmethod M(p: []?[string]"+deep+") -> (q: ?[]"+deep+")\n",
	)
	// collision probes: identifiers the generator derives from a member name must not be able to
	// collide with another member. For each member kind, every package-level identifier the output
	// declares that contains the probe name and is itself a legal member name is added as a second
	// member of each kind.
	for _, base := range []string{
		"interface org.example.b\nmethod Zq9Probe(a: int) -> (b: int)\n",
		"interface org.example.b\nmethod M() -> ()\ntype Zq9Probe (a: int)\n",
		"interface org.example.b\nmethod M() -> ()\nerror Zq9Probe (a: int)\n",
	} {
		_, out, err, pan := safeGenerate(base)
		if err != nil || pan != nil {
			continue
		}
		f, perr := parser.ParseFile(fset, "probe.go", out, 0)
		if perr != nil {
			continue
		}
		seen := map[string]bool{}
		add := func(n string) {
			if seen[n] || n == "Zq9Probe" || !strings.Contains(n, "Zq9Probe") {
				return
			}
			for i, c := range n {
				if !(c >= 'A' && c <= 'Z' || (i > 0 && (c >= 'a' && c <= 'z' || c >= '0' && c <= '9'))) {
					return
				}
			}
			seen[n] = true
			descs = append(descs, base+"type "+n+" ()\n", base+"method "+n+"() -> ()\n", base+"error "+n+" ()\n")
		}
		for _, d := range f.Decls {
			switch x := d.(type) {
			case *ast.FuncDecl:
				if x.Recv == nil {
					add(x.Name.Name)
				}
			case *ast.GenDecl:
				for _, sp := range x.Specs {
					switch y := sp.(type) {
					case *ast.TypeSpec:
						add(y.Name.Name)
					case *ast.ValueSpec:
						for _, n := range y.Names {
							add(n.Name)
						}
					}
				}
			}
		}
	}
	fails := 0
	checked := 0
	for _, d := range descs {
		// a fatal runtime error (stack overflow, out of memory) cannot be recovered: the marker names
		// the description that was being generated when the process died (see run.sh)
		fmt.Printf("BOUNDED-START description=%q\n", d)
		pkgname, out, err, pan := safeGenerate(d)
		if pan != nil {
			fails++
			fmt.Printf("BOUNDED-FAIL kind=panic description=%q panic=%v\n", d, pan)
			continue
		}
		if err != nil {
			// rejected descriptions are outside the property (only accepted ones count), but format errors are failures
			if _, perr := parseOnly(d); perr == nil {
				fails++
				fmt.Printf("BOUNDED-FAIL kind=generator-error description=%q err=%v\n", d, err)
			}
			continue
		}
		_, out2, _, _ := safeGenerate(d)
		if string(out) != string(out2) {
			fails++
			fmt.Printf("BOUNDED-FAIL kind=nondeterministic description=%q\n", d)
		}
		f, perr := parser.ParseFile(fset, pkgname+".go", out, 0)
		if perr != nil {
			fails++
			fmt.Printf("BOUNDED-FAIL kind=syntax description=%q err=%v\n", d, perr)
			continue
		}
		conf := types.Config{Importer: imp, Error: func(error) {}}
		info := &types.Info{Types: map[ast.Expr]types.TypeAndValue{}}
		_, terr := conf.Check(pkgname, fset, []*ast.File{f}, info)
		checked++
		if terr != nil {
			fails++
			fmt.Printf("BOUNDED-FAIL kind=typecheck description=%q err=%v\n", d, terr)
			continue
		}
		// "the code reports exactly that interface name and, up to trailing newlines, that description
		// text at run time": both accessors return constant expressions; evaluate them
		wantName := ""
		if tr, perr := parseOnly(d); perr == nil {
			wantName = idlName(tr)
		}
		if f.Name.Name != pkgname {
			fails++
			fmt.Printf("BOUNDED-FAIL kind=package-name description=%q package clause %q, generator reported %q\n", d, f.Name.Name, pkgname)
		}
		for _, dd := range f.Decls {
			fd, ok := dd.(*ast.FuncDecl)
			if !ok || fd.Recv == nil || fd.Body == nil || len(fd.Body.List) != 1 {
				continue
			}
			rs, ok := fd.Body.List[0].(*ast.ReturnStmt)
			if !ok || len(rs.Results) != 1 {
				continue
			}
			tv, ok := info.Types[rs.Results[0]]
			if !ok || tv.Value == nil || tv.Value.Kind() != constant.String {
				continue
			}
			got := constant.StringVal(tv.Value)
			switch fd.Name.Name {
			case "VarlinkGetName":
				if got != wantName {
					fails++
					fmt.Printf("BOUNDED-FAIL kind=reported-name description=%q VarlinkGetName() = %q, interface is %q\n", d, got, wantName)
				}
			case "VarlinkGetDescription":
				if strings.TrimRight(got, "\n") != strings.TrimRight(d, "\n") {
					fails++
					fmt.Printf("BOUNDED-FAIL kind=reported-description description=%q VarlinkGetDescription() = %q\n", d, got)
				}
			}
		}
	}
	fmt.Printf("BOUNDED-DONE descriptions=%d typechecked=%d fails=%d bound=\"type constructors to depth %d in alias/param/result/error-field position, plus special cases\"\n", len(descs), checked, fails, depth)
	if os.Getenv("VERIF_BOUNDED_STRICT") != "" && fails > 0 {
		t.Fail()
	}
}

func safeGenerate(d string) (pkg string, out []byte, err error, pan interface{}) {
	defer func() {
		if r := recover(); r != nil {
			pan = r
		}
	}()
	pkg, out, err = generateTemplate(d)
	return
}

func parseOnly(d string) (interface{}, error) {
	d = strings.TrimRight(d, "\n")
	return idlNew(d)
}
