package main

import "github.com/varlink/go/varlink/idl"

func idlNew(d string) (interface{}, error) { return idl.New(d) }

func idlName(t interface{}) string {
	if i, ok := t.(*idl.IDL); ok && i != nil {
		return i.Name
	}
	return ""
}
