package main

import "github.com/varlink/go/varlink/idl"

func idlNew(d string) (interface{}, error) { return idl.New(d) }
