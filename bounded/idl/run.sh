#!/bin/bash
# BOUNDED stand-in (never counted as proved) for the part of C05 / C06 that the per-production
# contracts do not compose into one machine-checked theorem: "the tree returned by idl.New re-prints
# to the input up to whitespace and comments" (plus documentation blocks, C05). A seeded family of
# grammar-conformant descriptions (types to depth 3, every layout kind between tokens) and 30
# single-edit mutations of each run through the real idl.New of the tree under check.
# usage: run.sh PROP TIER REPO
set -u
PROP="$1"; TIER="${2:-quick}"; REPO="${3:-/repo}"
HERE="$(cd "$(dirname "$0")" && pwd)"; VERIF="$(cd "$HERE/../.." && pwd)"; OUT="${VERIF_OUT:-$VERIF}"
export GOFLAGS=-mod=mod GOPROXY=off GOSUMDB=off GOTOOLCHAIN=local
N=1500; [ "$TIER" = "thorough" ] && N=20000
SEED=$(( ${VERIF_SEED:-0} + 1 ))
BASE="${TMPDIR:-/var/tmp}"; W=$(mktemp -d "$BASE/idlb-XXXXXX"); trap 'rm -rf "$W"' EXIT
sed -e "s/@@SEED@@/$SEED/; s/@@N@@/$N/; s/@@OBLIGATION@@/bounded stand-in for $PROP/" "$VERIF/replay_templates/idl_roundtrip_test.go.tmpl" > "$W/rt_test.go"
printf '{"Replace":{"%s/varlink/idl/zz_verif_bounded_test.go":"%s/rt_test.go"}}' "$REPO" "$W" > "$W/ov.json"
t0=$(date +%s.%N)
(cd "$REPO" && go test -overlay="$W/ov.json" -vet=off -count=1 -v -timeout 600s -run '^TestVerifReplay$' ./varlink/idl) > "$W/out.txt" 2>&1
t1=$(date +%s.%N)
done_line=$(grep -a '^REPLAY-DONE' "$W/out.txt" | head -1)
if [ "$PROP" = "C05" ]; then pat='^REPLAY-FAIL kind=conformant'; else pat='^REPLAY-FAIL'; fi
nfail=$(grep -a -c "$pat" "$W/out.txt")
rc=0
if [ -z "$done_line" ]; then
  echo "ENGINE-ERROR: bounded idl driver did not complete" >&2; tail -5 "$W/out.txt" >&2
  python3 "$HERE/merge_evidence.py" "$OUT/evidence/$PROP.json" "driver did not complete" 0 0 "$N" "$SEED" 0
  exit 0
fi
cands=$(echo "$done_line" | sed 's/.*candidates=\([0-9]*\).*/\1/')
if [ "$nfail" -gt 0 ]; then
  mkdir -p "$OUT/replays/$PROP"
  { echo "obligation: bounded stand-in for $PROP (re-print of the tree returned by idl.New; seed $SEED, $N base descriptions)"; grep -a "$pat" "$W/out.txt"; echo "$done_line"; echo "test source: $OUT/replays/$PROP/bounded_reprint_test.go"; } > "$OUT/replays/$PROP/bounded_reprint_failures.txt"
  cp "$W/rt_test.go" "$OUT/replays/$PROP/bounded_reprint_test.go"
  echo "VIOLATION property=$PROP replay=$OUT/replays/$PROP/bounded_reprint_failures.txt"
  rc=1
fi
python3 "$HERE/merge_evidence.py" "$OUT/evidence/$PROP.json" "ok" "$cands" "$nfail" "$N" "$SEED" "$(echo "$t1 - $t0" | bc)"
echo "bounded($PROP): candidates=$cands fails=$nfail base=$N seed=$SEED (bounded stand-in, not a proof)" >&2
exit $rc
