#!/usr/bin/env python3
import json, sys
path, status, cands, fails, n, seed, secs = sys.argv[1:8]
try:
    ev = json.load(open(path))
except Exception:
    sys.exit(0)
ev.setdefault("coverage", {})["bounded"] = {
    "label": "BOUNDED stand-in for the composition the per-production contracts do not prove as one theorem: the tree returned by idl.New re-prints to the input up to whitespace and comments (C05: conformant descriptions accepted, comment blocks become documentation; C06: accepted mutations still re-print, unique names, a method exists, no ??, no mixed lists); never counted in obligations/discharged",
    "status": status,
    "bound": "%s seeded grammar-conformant descriptions (1-3 members plus one method, types to depth 3, all layout kinds between tokens) and 30 single-edit mutations (delete 1-3 bytes / insert a token or a duplicate member / truncate) of each; seed %s" % (n, seed),
    "candidates": int(cands), "failures": int(fails), "wall_s": float(secs or 0),
}
if int(fails) > 0:
    ev["violations"] = ev.get("violations", 0) + 1
json.dump(ev, open(path, "w"), indent=1)
