module verif/bounded/stdlib

go 1.21
