#!/bin/bash
# BOUNDED validation (never counted as proved) of the assumed library contracts in spec/stdlib.contracts:
# each functional clause is run against the real standard library of the toolchain in use.
# A refuted clause is an ENGINE-ERROR (the trusted base is wrong), never a property VIOLATION.
# usage: run.sh PROP   (exit 0: nothing refuted; exit 2: a clause was refuted or the driver did not complete)
set -u
PROP="$1"
HERE="$(cd "$(dirname "$0")" && pwd)"; VERIF="$(cd "$HERE/../.." && pwd)"; OUT="${VERIF_OUT:-$VERIF}"
export GOFLAGS=-mod=mod GOPROXY=off GOSUMDB=off GOTOOLCHAIN=local
BASE="${TMPDIR:-/var/tmp}"; W=$(mktemp -d "$BASE/stdb-XXXXXX"); trap 'rm -rf "$W"' EXIT
t0=$(date +%s.%N)
(cd "$HERE" && go test -vet=off -count=1 -v -timeout 300s -run '^TestAssumedContracts$' .) > "$W/out.txt" 2>&1
t1=$(date +%s.%N)
done_line=$(grep -a '^ASSUME-DONE' "$W/out.txt" | head -1)
rc=0
if [ -z "$done_line" ]; then
  echo "ENGINE-ERROR: validation of the assumed library contracts did not complete" >&2; tail -5 "$W/out.txt" >&2
  status="driver did not complete"; clauses=0; inputs=0; fails=0; rc=2
else
  clauses=$(echo "$done_line" | sed 's/.*clauses=\([0-9]*\).*/\1/'); inputs=$(echo "$done_line" | sed 's/.*inputs=\([0-9]*\).*/\1/'); fails=$(echo "$done_line" | sed 's/.*fails=\([0-9]*\).*/\1/')
  status=ok
  if [ "$fails" -gt 0 ]; then
    status="refuted"; rc=2
    grep -a '^ASSUME-FAIL' "$W/out.txt" | head -10 | sed 's/^/ENGINE-ERROR: assumed library contract refuted on the real library: /' >&2
  fi
fi
python3 - "$OUT/evidence/$PROP.json" "$status" "$clauses" "$inputs" "$fails" "$(echo "$t1 - $t0" | bc)" "$(go version | awk '{print $3}')" <<'PY'
import json, sys
path, status, clauses, inputs, fails, secs, gov = sys.argv[1:8]
try:
    ev = json.load(open(path))
except Exception:
    sys.exit(0)
ev.setdefault("coverage", {})["assumption_validation"] = {
    "label": "BOUNDED validation of the assumed library contracts (spec/stdlib.contracts) against the real standard library; never counted in obligations/discharged; a refutation is an engine error, not a property verdict",
    "status": status, "toolchain": gov,
    "clause_groups": int(clauses), "inputs": int(inputs), "refuted": int(fails), "wall_s": float(secs or 0),
    "covers": "strings.LastIndex/Index/SplitN/Split (exhaustive to length 6-7 over a 3-4 letter alphabet + 20000 random), regexp.FindString prefix for ^-anchored patterns, bytes.Buffer content model, json.Marshal (object, no NUL, deterministic, fresh) on random byte strings, json.Unmarshal (absent members untouched, frame, fresh RawMessage), bufio.Reader.ReadBytes/Read (function of the byte stream under 5 segmentations incl. one byte at a time and frames larger than the buffer; raw read continues at the next byte), net.Conn/net.Listener deadlines and Accept errors on unix path / abstract unix / tcp / net.Pipe, context.Err after Done",
    "not_covered": "opaque calls with no functional clause (fmt, os, exec, strconv, go/format), sync ghost effects, ordering/fairness of select",
}
json.dump(ev, open(path, "w"), indent=1)
PY
echo "assumption-validation($PROP): clause_groups=$clauses inputs=$inputs refuted=$fails (bounded, not a proof)" >&2
exit $rc
