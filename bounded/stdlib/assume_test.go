// BOUNDED validation of the assumed library contracts of /verif/spec/stdlib.contracts.
//
// The deductive checks trust these contracts (they are about code outside /repo). This driver runs
// each functional clause of them against the real standard library of the toolchain in use, on a
// bounded-exhaustive family of small inputs plus a seeded random family. It proves nothing; it turns
// "assumed, unchecked" into "assumed, not refuted on N inputs". A refuted clause is an ENGINE-ERROR
// (the trusted base is wrong), never a property VIOLATION.
//
// Output protocol: one line `ASSUME-FAIL clause=<name> <detail>` per refutation, and a final
// `ASSUME-DONE clauses=<n> inputs=<m> fails=<k>`.
package stdlibassume

import (
	"bufio"
	"bytes"
	"context"
	"encoding/json"
	"fmt"
	"io"
	"math/rand"
	"net"
	"os"
	"path/filepath"
	"regexp"
	"strconv"
	"strings"
	"testing"
	"testing/iotest"
	"time"
)

var (
	nInputs int
	nFails  int
	clauses = map[string]bool{}
)

func fail(clause, format string, a ...interface{}) {
	nFails++
	if nFails <= 40 {
		fmt.Printf("ASSUME-FAIL clause=%s %s\n", clause, fmt.Sprintf(format, a...))
	}
}

func use(clause string) { clauses[clause] = true; nInputs++ }

// all strings over alphabet up to length n
func allStrings(alpha string, n int, f func(string)) {
	var rec func(prefix []byte, left int)
	rec = func(prefix []byte, left int) {
		f(string(prefix))
		if left == 0 {
			return
		}
		for i := 0; i < len(alpha); i++ {
			rec(append(prefix, alpha[i]), left-1)
		}
	}
	rec(nil, n)
}

func randBytes(r *rand.Rand, n int, alpha []byte) []byte {
	b := make([]byte, n)
	for i := range b {
		if alpha != nil {
			b[i] = alpha[r.Intn(len(alpha))]
		} else {
			b[i] = byte(r.Intn(256))
		}
	}
	return b
}

func seed() int64 {
	s, _ := strconv.ParseInt(os.Getenv("VERIF_SEED"), 10, 64)
	return s + 1
}

func TestAssumedContracts(t *testing.T) {
	r := rand.New(rand.NewSource(seed()))

	// ---- strings.LastIndex / Index (lastidx-range, firstidx-range, lastidx-dot)
	checkIdx := func(s, sub string) {
		use("strings.LastIndex")
		li, fi := strings.LastIndex(s, sub), strings.Index(s, sub)
		if li < -1 || (li >= 0 && li+len(sub) > len(s)) {
			fail("lastidx-range", "%q %q -> %d", s, sub, li)
		}
		if fi < -1 || (fi >= 0 && fi+len(sub) > len(s)) || fi > li || (li >= 0 && fi < 0) {
			fail("firstidx-range", "%q %q -> first %d last %d", s, sub, fi, li)
		}
		if sub == "." {
			if li >= 0 && s[li] != '.' {
				fail("lastidx-dot", "%q -> %d not a dot", s, li)
			}
			for j := li + 1; j < len(s); j++ {
				if s[j] == '.' {
					fail("lastidx-dot", "%q -> %d but dot at %d", s, li, j)
				}
			}
		}
		if len(sub) == 1 && fi >= 0 {
			for j := 0; j < fi; j++ {
				if s[j] == sub[0] {
					fail("firstidx-first", "%q %q -> %d but earlier at %d", s, sub, fi, j)
				}
			}
			if s[fi] != sub[0] {
				fail("firstidx-first", "%q %q -> %d not the byte", s, sub, fi)
			}
		}
		if len(sub) == 1 && fi < 0 && strings.IndexByte(s, sub[0]) >= 0 {
			fail("firstidx-first", "%q %q -> -1 but present", s, sub)
		}
	}
	allStrings(".a:;", 6, func(s string) { checkIdx(s, "."); checkIdx(s, ":"); checkIdx(s, ";") })
	for i := 0; i < 20000; i++ {
		s := string(randBytes(r, r.Intn(40), []byte(".:;ab\x00\xff")))
		checkIdx(s, ".")
		checkIdx(s, ":")
		checkIdx(s, ";")
	}

	// ---- strings.SplitN(s, sep, 2) with a one-byte separator; strings.Split
	checkSplit := func(s, sep string) {
		use("strings.SplitN")
		res := strings.SplitN(s, sep, 2)
		fi := strings.Index(s, sep)
		if res == nil || len(res) < 1 {
			fail("splitn-nonnil", "%q %q -> %v", s, sep, res)
			return
		}
		if fi < 0 && !(len(res) == 1 && res[0] == s) {
			fail("splitn-absent", "%q %q -> %q", s, sep, res)
		}
		if fi >= 0 && !(len(res) == 2 && res[0] == s[:fi] && res[1] == s[fi+1:]) {
			fail("splitn-present", "%q %q -> %q", s, sep, res)
		}
		all := strings.Split(s, sep)
		if all == nil || len(all) < 1 {
			fail("split-nonnil", "%q %q -> %v", s, sep, all)
		}
	}
	allStrings(":;a", 7, func(s string) { checkSplit(s, ":"); checkSplit(s, ";") })
	for i := 0; i < 20000; i++ {
		s := string(randBytes(r, r.Intn(40), []byte(".:;ab\x00\xff")))
		checkSplit(s, ":")
		checkSplit(s, ";")
	}

	// ---- bytes.HasSuffix / bytes.TrimSuffix with a one-byte suffix
	chkSuf := func(b []byte) {
		use("bytes.TrimSuffix")
		suf := []byte{0}
		has := len(b) >= 1 && b[len(b)-1] == 0
		if bytes.HasSuffix(b, suf) != has {
			fail("hassuffix", "%q", b)
		}
		tr := bytes.TrimSuffix(b, suf)
		if has && !(len(tr) == len(b)-1 && (len(tr) == 0 || &tr[0] == &b[0])) {
			fail("trimsuffix-present", "%q -> %q", b, tr)
		}
		if !has && !(len(tr) == len(b) && (len(tr) == 0 || &tr[0] == &b[0])) {
			fail("trimsuffix-absent", "%q -> %q", b, tr)
		}
	}
	allStrings("\x00a", 8, func(s string) { chkSuf([]byte(s)) })
	chkSuf(nil)
	for i := 0; i < 5000; i++ {
		chkSuf(randBytes(r, r.Intn(30), []byte{0, 0, 1, 'x'}))
	}

	// ---- regexp: FindString of a pattern anchored at the start returns a prefix; len(result) <= len(s)
	anchored := []string{`^[a-z]+(\.[a-z0-9]+([-][a-z0-9]+)*)+`, `^[a-z]+`, `^(?:a|b)c*`, `^xn--[a-z0-9]+(\.[a-z0-9]+)*`, `^[A-Za-z]([-]*[A-Za-z0-9])*(\.[A-Za-z0-9]([-]*[A-Za-z0-9])*)+`}
	for _, pat := range anchored {
		re := regexp.MustCompile(pat)
		chk := func(s string) {
			use("regexp.FindString")
			m := re.FindString(s)
			if len(m) > len(s) || s[:len(m)] != m {
				fail("findstring-prefix", "%q on %q -> %q", pat, s, m)
			}
		}
		allStrings("a.-x0", 6, chk)
		for i := 0; i < 4000; i++ {
			chk(string(randBytes(r, r.Intn(30), []byte("abcxn-.019 \n\x00"))))
		}
	}

	// ---- bytes.Buffer model (hypotheses model-buffer-len / model-buffer-string): the content is what
	// Reset / WriteByte / WriteString made it; Len() == len(String())
	for i := 0; i < 20000; i++ {
		use("bytes.Buffer")
		var b bytes.Buffer
		model := ""
		for k := r.Intn(12); k > 0; k-- {
			switch r.Intn(4) {
			case 0:
				b.Reset()
				model = ""
			case 1:
				c := byte(r.Intn(256))
				b.WriteByte(c)
				model += string([]byte{c})
			default:
				s := string(randBytes(r, r.Intn(20), nil))
				b.WriteString(s)
				model += s
			}
			if b.String() != model || b.Len() != len(model) || b.Len() < 0 {
				fail("model-buffer", "content %q model %q len %d", b.String(), model, b.Len())
			}
		}
	}

	// ---- encoding/json.Marshal: a struct value encodes to one JSON object without a NUL byte, at least
	// two bytes, deterministically, for arbitrary (also invalid UTF-8, NUL, control) strings
	type inner struct {
		S string                 `json:"s"`
		M map[string]interface{} `json:"m,omitempty"`
		A []string               `json:"a,omitempty"`
	}
	type msg struct {
		Method     string      `json:"method,omitempty"`
		Parameters interface{} `json:"parameters,omitempty"`
		More       bool        `json:"more,omitempty"`
		Error      string      `json:"error,omitempty"`
	}
	for i := 0; i < 6000; i++ {
		use("json.Marshal")
		in := inner{S: string(randBytes(r, r.Intn(50), nil))}
		if r.Intn(2) == 0 {
			in.M = map[string]interface{}{string(randBytes(r, r.Intn(6), nil)): string(randBytes(r, r.Intn(6), nil)), "n": r.Int63(), "f": r.NormFloat64()}
			in.A = []string{"\x00", string(randBytes(r, 3, nil))}
		}
		m := msg{Method: string(randBytes(r, r.Intn(20), nil)), Parameters: in, More: r.Intn(2) == 0, Error: string(randBytes(r, r.Intn(5), nil))}
		var v interface{} = m
		if r.Intn(2) == 0 {
			v = &m
		}
		b1, err := json.Marshal(v)
		if err != nil {
			continue // the contract is conditional on err == nil
		}
		b2, _ := json.Marshal(v)
		if len(b1) < 2 || bytes.IndexByte(b1, 0) >= 0 || b1[0] != '{' || b1[len(b1)-1] != '}' || !json.Valid(b1) {
			fail("marshal-object-no-nul", "%q", b1)
		}
		if !bytes.Equal(b1, b2) {
			fail("marshal-deterministic", "%q vs %q", b1, b2)
		}
		if len(b1) > 0 && len(b2) > 0 && &b1[0] == &b2[0] {
			fail("marshal-fresh", "same backing array")
		}
	}

	// ---- encoding/json.Unmarshal: members absent from the text leave the target's fields untouched
	// (this is why the contracts demand zero-valued decode targets), and it writes only into the target
	type rep struct {
		Parameters *json.RawMessage `json:"parameters"`
		Continues  bool             `json:"continues"`
		Error      string           `json:"error"`
	}
	texts := []string{`{}`, `{"continues":true}`, `{"error":"x.Y"}`, `{"parameters":{"a":1}}`, `{"parameters":null}`, `null`, `{"continues":false,"error":""}`}
	for _, a := range texts {
		for _, b := range texts {
			use("json.Unmarshal")
			var fresh, reused rep
			if err := json.Unmarshal([]byte(a), &reused); err != nil {
				fail("unmarshal-total", "%s: %v", a, err)
			}
			other := rep{Error: "sentinel"}
			errF := json.Unmarshal([]byte(b), &fresh)
			errR := json.Unmarshal([]byte(b), &reused)
			if (errF == nil) != (errR == nil) {
				fail("unmarshal-err-function-of-text", "%s then %s", a, b)
			}
			if other.Error != "sentinel" || other.Parameters != nil || other.Continues {
				fail("unmarshal-frame", "wrote outside the target")
			}
			// a fresh target is a function of the text alone
			var fresh2 rep
			json.Unmarshal([]byte(b), &fresh2)
			if fresh.Continues != fresh2.Continues || fresh.Error != fresh2.Error || (fresh.Parameters == nil) != (fresh2.Parameters == nil) {
				fail("unmarshal-fresh-deterministic", "%s", b)
			}
			if fresh.Parameters != nil && fresh2.Parameters != nil && fresh.Parameters == fresh2.Parameters {
				fail("unmarshal-rawmessage-fresh", "%s: same pointer", b)
			}
		}
	}

	// ---- bufio.Reader.ReadBytes / Read: functions of the byte stream alone, whatever the segmentation;
	// err == nil <=> the result ends in the first delimiter; a later raw Read continues at the very next byte
	for i := 0; i < 1500; i++ {
		use("bufio.ReadBytes")
		n := r.Intn(3 * 4096)
		if r.Intn(3) == 0 {
			n = r.Intn(64)
		}
		data := randBytes(r, n, []byte{0, 0, 'a', 'b', '{', '}', '"', 0xff})
		if r.Intn(4) == 0 { // a frame larger than the internal buffer
			data = append(bytes.Repeat([]byte{'x'}, 4096+r.Intn(9000)), data...)
		}
		readers := []io.Reader{bytes.NewReader(data), iotest.OneByteReader(bytes.NewReader(data)), iotest.HalfReader(bytes.NewReader(data)), iotest.DataErrReader(bytes.NewReader(data)), &chunkReader{data: data, r: rand.New(rand.NewSource(int64(i)))}}
		var ref [][]byte
		for k, rd := range readers {
			br := bufio.NewReader(rd)
			var frames [][]byte
			off := 0
			nraw := r.Intn(4) // after this many frames switch to raw reads
			raw := false
			for {
				if !raw && len(frames) == nraw && k == 0 {
					// C18: a raw read after frame reads returns the very next bytes
					p := make([]byte, 1+r.Intn(20))
					m, err := br.Read(p)
					if m < 0 || m > len(p) || !bytes.Equal(p[:m], data[off:off+m]) {
						fail("bufio-read-front", "raw read at %d returned %q, stream has %q", off, p[:m], data[off:min(off+m, len(data))])
					}
					off += m
					if err != nil {
						break
					}
					raw = true
					continue
				}
				out, err := br.ReadBytes(0)
				if !bytes.Equal(out, data[off:off+len(out)]) {
					fail("bufio-readbytes-front", "reader %d at %d", k, off)
				}
				if err == nil {
					if len(out) < 1 || out[len(out)-1] != 0 || bytes.IndexByte(out[:len(out)-1], 0) >= 0 {
						fail("bufio-readbytes-delim", "reader %d: %q", k, out)
					}
				} else if bytes.IndexByte(out, 0) >= 0 {
					fail("bufio-readbytes-error-no-frame", "reader %d: error %v with delimiter in %q", k, err, out)
				}
				off += len(out)
				if err != nil {
					if off != len(data) {
						fail("bufio-readbytes-all", "reader %d stopped at %d of %d", k, off, len(data))
					}
					break
				}
				if k != 0 || !raw {
					frames = append(frames, out)
				}
			}
			if k == 1 {
				ref = frames
			} else if k > 1 {
				if len(frames) != len(ref) {
					fail("bufio-segmentation", "reader %d: %d frames, one-byte reader %d", k, len(frames), len(ref))
				} else {
					for j := range frames {
						if !bytes.Equal(frames[j], ref[j]) {
							fail("bufio-segmentation", "reader %d frame %d differs", k, j)
						}
					}
				}
			}
		}
	}

	// ---- net.Conn deadlines (the only source of "promptly" in C17) and Accept errors, on the real
	// transports: a blocked Read / Accept returns once a deadline in the past is set; the zero time clears it
	dir, _ := os.MkdirTemp("", "assume")
	defer os.RemoveAll(dir)
	for _, tr := range []struct{ network, addr string }{{"unix", filepath.Join(dir, "s")}, {"unix", "@verif-assume-" + strconv.Itoa(os.Getpid())}, {"tcp", "127.0.0.1:0"}} {
		use("net.deadlines")
		var lc net.ListenConfig
		l, err := lc.Listen(context.Background(), tr.network, tr.addr)
		if err != nil || l == nil {
			fail("listen", "%s %s: %v", tr.network, tr.addr, err)
			continue
		}
		if tr.network == "unix" {
			if _, ok := l.(*net.UnixListener); !ok {
				fail("listen-unix-type", "%T", l)
			}
		}
		cc, err := net.Dial(l.Addr().Network(), l.Addr().String())
		if err != nil {
			fail("dial", "%v", err)
			l.Close()
			continue
		}
		sc, err := l.Accept()
		if err != nil || sc == nil {
			fail("accept-ok", "%v", err)
		}
		// blocked read is released by a deadline in the past, with a timeout error
		done := make(chan error, 1)
		go func() { _, e := sc.Read(make([]byte, 8)); done <- e }()
		time.Sleep(20 * time.Millisecond)
		if e := sc.SetReadDeadline(time.Unix(1, 0)); e != nil {
			fail("setreaddeadline", "%v", e)
		}
		select {
		case e := <-done:
			ne, ok := e.(net.Error)
			if !ok || !ne.Timeout() {
				fail("deadline-past-unblocks-read", "%s: %v", tr.network, e)
			}
		case <-time.After(3 * time.Second):
			fail("deadline-past-unblocks-read", "%s: still blocked after 3s", tr.network)
		}
		// the zero time clears it: the next byte is delivered
		sc.SetReadDeadline(time.Time{})
		go cc.Write([]byte("z"))
		sc.SetReadDeadline(time.Now().Add(3 * time.Second))
		p := make([]byte, 1)
		if n, e := sc.Read(p); n != 1 || e != nil || p[0] != 'z' {
			fail("deadline-zero-clears", "%s: %d %v", tr.network, n, e)
		}
		// write side
		if e := sc.SetWriteDeadline(time.Unix(1, 0)); e != nil {
			fail("setwritedeadline", "%v", e)
		}
		if _, e := sc.Write(bytes.Repeat([]byte{1}, 1<<16)); e == nil {
			fail("deadline-past-fails-write", "%s", tr.network)
		} else if ne, ok := e.(net.Error); !ok || !ne.Timeout() {
			fail("deadline-past-fails-write", "%s: %v", tr.network, e)
		}
		// Accept: deadline expiry and Close both yield errors implementing net.Error
		if d, ok := l.(interface{ SetDeadline(time.Time) error }); ok {
			d.SetDeadline(time.Now().Add(10 * time.Millisecond))
			_, e := l.Accept()
			ne, isNE := e.(net.Error)
			if e == nil || !isNE || !ne.Timeout() {
				fail("accept-timeout-neterror", "%s: %v", tr.network, e)
			}
			d.SetDeadline(time.Time{})
		} else {
			fail("listener-setdeadline", "%T has no SetDeadline", l)
		}
		l.Close()
		_, e := l.Accept()
		if ne, isNE := e.(net.Error); e == nil || !isNE || ne.Timeout() {
			fail("accept-closed-neterror", "%s: %v", tr.network, e)
		}
		cc.Close()
		sc.Close()
	}

	// ---- net.Pipe (used by tests of upgraded connections): deadlines behave the same
	{
		use("net.Pipe")
		a, b := net.Pipe()
		done := make(chan error, 1)
		go func() { _, e := a.Read(make([]byte, 1)); done <- e }()
		time.Sleep(10 * time.Millisecond)
		a.SetReadDeadline(time.Unix(1, 0))
		select {
		case e := <-done:
			if ne, ok := e.(net.Error); !ok || !ne.Timeout() {
				fail("pipe-deadline", "%v", e)
			}
		case <-time.After(3 * time.Second):
			fail("pipe-deadline", "blocked")
		}
		a.Close()
		b.Close()
	}

	// ---- context: Err() is non-nil once Done() is closed
	{
		use("context.Err")
		ctx, cancel := context.WithCancel(context.Background())
		if ctx == nil || ctx.Err() != nil {
			fail("context-live", "")
		}
		cancel()
		<-ctx.Done()
		if ctx.Err() == nil {
			fail("context-done-err", "")
		}
		dctx, c2 := context.WithTimeout(context.Background(), time.Millisecond)
		<-dctx.Done()
		if dctx.Err() == nil {
			fail("context-done-err", "deadline")
		}
		c2()
	}

	fmt.Printf("ASSUME-DONE clauses=%d inputs=%d fails=%d\n", len(clauses), nInputs, nFails)
	if nFails > 0 {
		t.Fail()
	}
}

type chunkReader struct {
	data []byte
	off  int
	r    *rand.Rand
}

func (c *chunkReader) Read(p []byte) (int, error) {
	if c.off >= len(c.data) {
		return 0, io.EOF
	}
	n := 1 + c.r.Intn(7000)
	if n > len(p) {
		n = len(p)
	}
	if n > len(c.data)-c.off {
		n = len(c.data) - c.off
	}
	copy(p, c.data[c.off:c.off+n])
	c.off += n
	return n, nil
}

func min(a, b int) int {
	if a < b {
		return a
	}
	return b
}
